/* replay input for obligation bcj_x86_roundtrip (values of successive nd_*() calls) */
#include <stdint.h>
const uint64_t vreplay_values[] = {10ull, 232ull, 123ull, 255ull, 246ull, 0ull, 233ull, 132ull, 241ull, 235ull, 255ull, 962461683ull, 2ull, 962461682ull, 10ull, 232ull, 255ull, 144ull, 171ull, 0ull, 232ull, 125ull, 0ull, 250ull, 0ull, 3225796724ull, 9ull, 3225796721ull,  0};
const unsigned vreplay_count = 28;
void harness_roundtrip(void);
int main(void) { harness_roundtrip(); return 0; }
