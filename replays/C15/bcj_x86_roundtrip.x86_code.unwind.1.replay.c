/* replay input for obligation bcj_x86_roundtrip (values of successive nd_*() calls) */
#include <stdint.h>
const uint64_t vreplay_values[] = { 0};
const unsigned vreplay_count = 0;
void harness_roundtrip(void);
int main(void) { harness_roundtrip(); return 0; }
