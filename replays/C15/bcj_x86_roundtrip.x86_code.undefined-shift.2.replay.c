/* replay input for obligation bcj_x86_roundtrip (values of successive nd_*() calls) */
#include <stdint.h>
const uint64_t vreplay_values[] = {10ull, 232ull, 126ull, 160ull, 254ull, 255ull, 232ull, 232ull, 232ull, 232ull, 254ull, 4293025791ull, 1ull, 4293025791ull, 10ull, 232ull, 126ull, 160ull, 254ull, 255ull, 232ull, 232ull, 232ull, 232ull, 254ull, 4293025791ull, 1ull, 4293025791ull,  0};
const unsigned vreplay_count = 28;
void harness_roundtrip(void);
int main(void) { harness_roundtrip(); return 0; }
