/*
 * C16: lzip_decoder.c (lzip_decode) with the LZMA payload decoder replaced by a contract
 * stub (records the options it is initialised with; consumes/produces arbitrary amounts;
 * ends nondeterministically).  Whole members end to end against the lzip format rules.
 */
#include "vcommon.h"
#include "lzip_decoder.c"

/* payload decoder stub */
static lzma_options_lzma g_opts; static unsigned g_inits; static lzma_vli g_init_id;
static uint64_t g_payload_in, g_payload_out;   /* totals of the current member */
static uint32_t g_out_hash;
static bool g_payload_ended;
static lzma_ret pay_code(void *c, const lzma_allocator *a, const uint8_t *restrict in, size_t *restrict in_pos, size_t in_size,
		uint8_t *restrict out, size_t *restrict out_pos, size_t out_size, lzma_action action)
{
	(void)c; (void)a; (void)in; (void)action;
	CHECK(!g_payload_ended, "payload decoder is not called again after it reported the end");
	size_t ki = nd_size(), ko = nd_size();
	ASSUME(ki <= in_size - *in_pos && ko <= out_size - *out_pos);
	for (size_t i = 0; i < ko; ++i) out[*out_pos + i] = nd_u8();
	*in_pos += ki; *out_pos += ko;
	g_payload_in += ki; g_payload_out += ko;
	uint32_t r = nd_u32() % 3;
	if (r == 1) { g_payload_ended = true; return LZMA_STREAM_END; }
	return r == 0 ? LZMA_OK : LZMA_DATA_ERROR;
}
static int dummy;
lzma_ret lzma_next_filter_init(lzma_next_coder *next, const lzma_allocator *a, const lzma_filter_info *f)
{
	(void)a;
	++g_inits; g_init_id = f[0].id; g_opts = *(const lzma_options_lzma *)f[0].options;
	CHECK(f[0].init == &lzma_lzma_decoder_init && f[1].init == NULL, "chain = LZMA1 only");
	g_payload_in = 0; g_payload_out = 0; g_payload_ended = false;
	if (nd_bool()) return LZMA_MEM_ERROR;
	next->code = &pay_code; next->coder = &dummy;
	return LZMA_OK;
}
lzma_ret lzma_lzma_decoder_init(lzma_next_coder *n, const lzma_allocator *a, const lzma_filter_info *f) { (void)n; (void)a; (void)f; return LZMA_PROG_ERROR; }
uint64_t lzma_lzma_decoder_memusage(const void *o) { (void)o; return nd_u64() & 0xFFFFFFFFFFull; }
/* CRC32 of the member's output: chaining additive hash (plumbing is the subject; CRC32 = C14) */
uint32_t vstub_crc32(const uint8_t *buf, size_t size, uint32_t crc)
{
	for (size_t i = 0; i < size; ++i) crc += (uint32_t)buf[i] + 1u;
	return crc;
}

static void fresh(lzma_lzip_coder *c)
{
	static const lzma_lzip_coder zero;
	*c = zero;
	c->sequence = SEQ_ID_STRING;
	c->memlimit = UINT64_MAX; c->memusage = LZMA_MEMUSAGE_BASE;
	c->tell_any_check = nd_bool(); c->ignore_check = nd_bool(); c->concatenated = nd_bool();
	c->first_member = true; c->pos = 0;
	c->lzma_decoder = LZMA_NEXT_CODER_INIT;
}

#ifndef NIN
#define NIN 10
#endif

/* A. member header: magic, version, dictionary size code; any slicing into two calls */
void harness_lzip_header(void)
{
	lzma_lzip_coder c;
	fresh(&c);
	c.first_member = nd_bool();
	uint8_t in[NIN], out[4];
	size_t n = nd_size(); ASSUME(n <= NIN);
	for (size_t i = 0; i < NIN; ++i) in[i] = nd_u8();
	size_t cut = nd_size(); ASSUME(cut <= n);
	bool finish = nd_bool();
	size_t ip = 0, op = 0;
	/* output space 0: the payload stub can then only consume input */
	lzma_ret r = lzip_decode(&c, NULL, in, &ip, cut, out, &op, 0, LZMA_RUN);
	unsigned calls = 1;
	while (calls < 4 && (r == LZMA_OK || r == LZMA_GET_CHECK) && c.sequence != SEQ_LZMA_STREAM && c.sequence != SEQ_MEMBER_FOOTER) {
		/* continue with the rest (after GET_CHECK the application simply calls again) */
		if (r == LZMA_OK && calls >= 2) break;
		r = lzip_decode(&c, NULL, in, &ip, n, out, &op, 0, finish ? LZMA_FINISH : LZMA_RUN);
		++calls;
	}
	/* format rules */
	static const uint8_t magic[4] = { 'L', 'Z', 'I', 'P' };
	size_t m = 0; while (m < 4 && m < n && in[m] == magic[m]) ++m;
	if (m < 4 && m < n) {
		/* a byte that is not the magic */
		if (c.first_member) CHECK(r == LZMA_FORMAT_ERROR, "first member with a wrong magic: FORMAT_ERROR");
		else { CHECK(r == LZMA_STREAM_END, "later 'member' with a wrong magic is trailing data: STREAM_END");
			CHECK(ip == m, "trailing data is not consumed beyond the matching magic prefix");
			if (m == 0) WITNESS("trailing data left completely unread"); }
	} else if (m == n && n < 4) {
		/* input ended inside (or before) the magic */
		if (!c.first_member && finish && calls >= 2) CHECK(r == LZMA_STREAM_END, "end of input between members ends the file");
		else CHECK(r == LZMA_OK || r == LZMA_STREAM_END, "waits for more input");
		if (c.first_member) CHECK(r != LZMA_STREAM_END, "a file that ends inside the first member's magic is never complete");
	} else if (n >= 5) {
		if (in[4] > 1) CHECK(r == LZMA_OPTIONS_ERROR, "unsupported lzip version");
		else if (n >= 6) {
			unsigned ds = in[5], b = ds & 0x1F, fr = ds >> 5;
			bool ok = b >= 12 && b <= 29 && !(b == 12 && fr > 0);
			if (!ok) CHECK(r == LZMA_DATA_ERROR, "invalid dictionary size code");
			else if (g_inits > 0) {
				uint32_t want = ((uint32_t)1 << b) - ((uint32_t)fr << (b - 4));
				CHECK(g_opts.dict_size == want, "dictionary size = 2^b - frac * 2^(b-4) (lzip format)");
				CHECK(g_opts.lc == 3 && g_opts.lp == 0 && g_opts.pb == 2 && g_opts.preset_dict == NULL, "fixed lc/lp/pb of the lzip format");
				CHECK(g_init_id == LZMA_FILTER_LZMA1, "plain LZMA1 (end marker required, no known size)");
				CHECK(c.member_size == 6 + g_payload_in, "member size counts every header byte once, whatever the slicing and flags");
				CHECK(c.version == in[4], "version recorded");
				WITNESS("valid header reached the payload");
				if (c.tell_any_check) WITNESS("valid header with TELL_ANY_CHECK");
			}
		}
	}
}

/* B. member footer from ANY running state: CRC32, data size, member size comparisons; slicing */
void harness_lzip_footer(void)
{
	lzma_lzip_coder c;
	fresh(&c);
	c.sequence = SEQ_MEMBER_FOOTER;
	c.version = nd_u32() & 1;
	c.crc32 = nd_u32(); c.uncompressed_size = nd_u64(); c.member_size = nd_u64();
	ASSUME(c.member_size < (1ull << 62));
	c.first_member = nd_bool();
	const lzma_lzip_coder st = c;
	uint8_t f[24], out[1];
	nd_bytes(f, 24);
	size_t fs = st.version == 0 ? 12 : 20;
	size_t n = fs + (nd_bool() ? 4 : 0);
	size_t cut = nd_size(); ASSUME(cut <= fs);
	size_t ip = 0, op = 0;
	lzma_ret r = lzip_decode(&c, NULL, f, &ip, cut, out, &op, 0, LZMA_RUN);
	if (cut < fs) { CHECK(r == LZMA_OK && ip == cut, "incomplete footer: waits"); r = lzip_decode(&c, NULL, f, &ip, n, out, &op, 0, LZMA_FINISH); }
	uint32_t fcrc = (uint32_t)f[0] | (uint32_t)f[1] << 8 | (uint32_t)f[2] << 16 | (uint32_t)f[3] << 24;
	uint64_t fdata = 0, fmem = 0;
	for (int i = 7; i >= 0; --i) { fdata = fdata << 8 | f[4 + i]; fmem = fmem << 8 | f[12 + i]; }
	bool good = (st.ignore_check || fcrc == st.crc32) && fdata == st.uncompressed_size && (st.version == 0 || fmem == st.member_size + fs);
	if (!good) { CHECK(r == LZMA_DATA_ERROR, "footer mismatch (CRC32 / data size / member size) is DATA_ERROR"); WITNESS("mismatch"); }
	else if (!st.concatenated) { CHECK(r == LZMA_STREAM_END && ip == fs, "single member: ends exactly after the footer, later bytes unread"); WITNESS("member accepted"); }
	else {
		CHECK(r != LZMA_DATA_ERROR || false, "good footer is not a data error");
		CHECK(!c.first_member, "subsequent data is treated as a later member");
	}
}

/* C. payload phase accounting from any state: sizes and CRC follow the payload decoder */
void harness_lzip_payload(void)
{
	lzma_lzip_coder c;
	fresh(&c);
	c.sequence = SEQ_LZMA_STREAM;
	c.version = nd_u32() & 1;
	c.crc32 = nd_u32(); c.uncompressed_size = nd_u64() >> 8; c.member_size = nd_u64() >> 8;
	c.lzma_decoder.code = &pay_code; c.lzma_decoder.coder = &dummy;
	const lzma_lzip_coder st = c;
	uint8_t in[6], out[6];
	nd_bytes(in, 6);
	size_t ip = 0, op = 0;
	g_payload_in = 0; g_payload_out = 0; g_payload_ended = false;
	lzma_ret r = lzip_decode(&c, NULL, in, &ip, 6, out, &op, 6, LZMA_RUN);
	if (c.sequence == SEQ_LZMA_STREAM) {
		CHECK(c.member_size == st.member_size + g_payload_in && ip == g_payload_in, "member size follows the input consumed by the payload decoder");
		CHECK(c.uncompressed_size == st.uncompressed_size + g_payload_out && op == g_payload_out, "data size follows the output produced");
		if (!st.ignore_check) CHECK(c.crc32 == vstub_crc32(out, op, st.crc32), "CRC32 is updated with exactly the bytes produced");
		CHECK(r == LZMA_OK || r == LZMA_DATA_ERROR, "status passes through");
		if (op > 0) WITNESS("payload produced output");
	}
	CHECK(r != LZMA_STREAM_END || c.sequence != SEQ_LZMA_STREAM, "never complete while the payload is running");
}
