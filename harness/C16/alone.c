/*
 * C16: alone_decoder.c (.lzma header) and auto_decoder.c (format detection, concatenation
 * rule) with the payload / sub-decoders replaced by recording stubs.
 */
#include "vcommon.h"
#include "alone_decoder.c"

static lzma_options_lzma g_opts; static unsigned g_inits; static lzma_vli g_init_id;
static int dummy;
static lzma_ret pay_code(void *c, const lzma_allocator *a, const uint8_t *restrict in, size_t *restrict in_pos, size_t in_size,
		uint8_t *restrict out, size_t *restrict out_pos, size_t out_size, lzma_action action)
{
	(void)c; (void)a; (void)in; (void)out; (void)action;
	size_t ki = nd_size(), ko = nd_size();
	ASSUME(ki <= in_size - *in_pos && ko <= out_size - *out_pos);
	*in_pos += ki; *out_pos += ko;
	uint32_t r = nd_u32() % 3;
	return r == 0 ? LZMA_OK : r == 1 ? LZMA_STREAM_END : LZMA_DATA_ERROR;
}
lzma_ret lzma_next_filter_init(lzma_next_coder *next, const lzma_allocator *a, const lzma_filter_info *f)
{
	(void)a;
	++g_inits; g_init_id = f[0].id; g_opts = *(const lzma_options_lzma *)f[0].options;
	if (nd_bool()) return LZMA_MEM_ERROR;
	next->code = &pay_code; next->coder = &dummy;
	return LZMA_OK;
}
lzma_ret lzma_lzma_decoder_init(lzma_next_coder *n, const lzma_allocator *a, const lzma_filter_info *f) { (void)n; (void)a; (void)f; return LZMA_PROG_ERROR; }
static uint64_t g_mu;
uint64_t lzma_lzma_decoder_memusage(const void *o) { (void)o; return g_mu; }
bool lzma_lzma_lclppb_decode(lzma_options_lzma *options, uint8_t byte);

/* .lzma header: 13 bytes, any slicing */
void harness_alone_header(void)
{
	lzma_next_coder next = LZMA_NEXT_CODER_INIT;
	bool picky = nd_bool();
	uint64_t memlimit = nd_u64();
	CHECK(lzma_alone_decoder_init(&next, NULL, memlimit, picky) == LZMA_OK, "init");
	lzma_alone_coder *c = next.coder;
	g_mu = nd_u64() >> 16;
	uint8_t h[14], out[2];
	nd_bytes(h, 14);
	size_t cut = nd_size(); ASSUME(cut <= 13);
	size_t ip = 0, op = 0;
	lzma_ret r = alone_decode(c, NULL, h, &ip, cut, out, &op, 1, LZMA_RUN);
	if (r == LZMA_OK && cut < 13) { CHECK(ip == cut, "partial header fully consumed"); r = alone_decode(c, NULL, h, &ip, 13, out, &op, 1, LZMA_RUN); }
	/* spec (doc/lzma-file-format.txt) */
	bool props_ok = h[0] <= (4 * 5 + 4) * 9 + 8;
	unsigned pb = h[0] / 45, lp = (h[0] % 45) / 9, lc = h[0] % 9;
	props_ok = props_ok && lc + lp <= 4;
	uint32_t ds = (uint32_t)h[1] | (uint32_t)h[2] << 8 | (uint32_t)h[3] << 16 | (uint32_t)h[4] << 24;
	uint64_t us = 0; for (int i = 7; i >= 0; --i) us = us << 8 | h[5 + i];
	bool ds_plausible = ds == UINT32_MAX;
	for (unsigned k = 0; k < 32; ++k) { uint64_t a = 1ull << k, b = a + (a >> 1); if (ds == a || (k >= 1 && ds == b)) ds_plausible = true; }
	if (ds == 0) ds_plausible = true;   /* 0 passes the implementation's test too (it is treated as the 4 KiB minimum) */
	bool us_plausible = us == UINT64_MAX || us < (1ull << 38);
	bool accept = props_ok && (!picky || (ds_plausible && us_plausible));
	if (!accept) { CHECK(r == LZMA_FORMAT_ERROR, "implausible or invalid .lzma header: FORMAT_ERROR"); CHECK(g_inits == 0, "payload decoder not initialised"); WITNESS("rejected header"); return; }
	uint64_t lim = memlimit == 0 ? 1 : memlimit;
	if (g_mu + LZMA_MEMUSAGE_BASE > lim) { CHECK(r == LZMA_MEMLIMIT_ERROR && g_inits == 0, "memory limit gate before any allocation"); WITNESS("memlimit"); return; }
	CHECK(g_inits == 1, "payload decoder initialised once");
	CHECK(g_opts.lc == lc && g_opts.lp == lp && g_opts.pb == pb && g_opts.dict_size == ds, "lc/lp/pb and dictionary size passed down as in the header");
	CHECK(g_init_id == LZMA_FILTER_LZMA1EXT && (g_opts.ext_flags & LZMA_LZMA1EXT_ALLOW_EOPM), "end marker allowed with known size");
	CHECK((((uint64_t)g_opts.ext_size_high << 32) | g_opts.ext_size_low) == us, "uncompressed size passed down (all ones = unknown)");
	CHECK(g_opts.preset_dict == NULL, "no preset dictionary");
	WITNESS("accepted header");
}

