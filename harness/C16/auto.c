/*
 * C16: auto_decoder.c (format detection, concatenation rule) with the three sub-decoder
 * init functions replaced by recording stubs.
 */
#include "vcommon.h"
#include "auto_decoder.c"

static int dummy;
static lzma_ret pay_code(void *c, const lzma_allocator *a, const uint8_t *restrict in, size_t *restrict in_pos, size_t in_size,
		uint8_t *restrict out, size_t *restrict out_pos, size_t out_size, lzma_action action)
{
	(void)c; (void)a; (void)in; (void)out; (void)action;
	size_t ki = nd_size(), ko = nd_size();
	ASSUME(ki <= in_size - *in_pos && ko <= out_size - *out_pos);
	*in_pos += ki; *out_pos += ko;
	uint32_t r = nd_u32() % 3;
	return r == 0 ? LZMA_OK : r == 1 ? LZMA_STREAM_END : LZMA_DATA_ERROR;
}
/* sub-decoder inits seen by auto_decode */
static int g_choice; static uint32_t g_choice_flags; static uint64_t g_choice_memlimit; static bool g_choice_picky;
lzma_ret lzma_stream_decoder_init(lzma_next_coder *n, const lzma_allocator *a, uint64_t m, uint32_t fl) { (void)a; g_choice = 1; g_choice_flags = fl; g_choice_memlimit = m; n->code = &pay_code; n->coder = &dummy; return LZMA_OK; }
lzma_ret lzma_lzip_decoder_init(lzma_next_coder *n, const lzma_allocator *a, uint64_t m, uint32_t fl) { (void)a; g_choice = 2; g_choice_flags = fl; g_choice_memlimit = m; n->code = &pay_code; n->coder = &dummy; return LZMA_OK; }

lzma_ret lzma_alone_decoder_init(lzma_next_coder *n, const lzma_allocator *a, uint64_t m, bool picky) { (void)a; g_choice = 3; g_choice_memlimit = m; g_choice_picky = picky; n->code = &pay_code; n->coder = &dummy; return LZMA_OK; }

/* auto decoder: choice by first byte; .lzma + concatenated => anything after the stream is an error */
void harness_auto(void)
{
	lzma_auto_coder c;
	static const lzma_auto_coder zero; c = zero;
	c.next = LZMA_NEXT_CODER_INIT;
	c.memlimit = nd_u64(); if (c.memlimit == 0) c.memlimit = 1;
	c.flags = nd_u32() & LZMA_SUPPORTED_FLAGS;
	c.sequence = SEQ_INIT;
	uint8_t in[6], out[4];
	nd_bytes(in, 6);
	size_t n = nd_size(); ASSUME(n >= 1 && n <= 6);
	size_t ip = 0, op = 0;
	lzma_ret r = auto_decode(&c, NULL, in, &ip, n, out, &op, 4, LZMA_RUN);
	if (in[0] == 0xFD) CHECK(g_choice == 1, ".xz detected by 0xFD");
	else if (in[0] == 0x4C) CHECK(g_choice == 2, ".lz detected by 'L'");
	else CHECK(g_choice == 3, "anything else is tried as .lzma");
	if (g_choice == 1 || g_choice == 2) CHECK(g_choice_flags == c.flags, "flags forwarded");
	CHECK(g_choice_memlimit == c.memlimit, "memory limit forwarded");
	if (g_choice == 3) {
		CHECK(g_choice_picky, ".lzma via auto-detection uses the plausibility test");
		if (c.flags & LZMA_TELL_NO_CHECK) CHECK(r == LZMA_NO_CHECK, ".lzma has no integrity check");
	}
	(void)r;
	WITNESS("reached");
}

/* concatenation rule from the running state, with arbitrary slicing of what follows */
void harness_auto_finish(void)
{
	lzma_auto_coder c;
	static const lzma_auto_coder zero; c = zero;
	c.next.code = &pay_code; c.next.coder = &dummy;
	c.flags = nd_u32() & LZMA_SUPPORTED_FLAGS;
	c.sequence = SEQ_CODE;
	uint8_t in[6], out[4];
	nd_bytes(in, 6);
	size_t n = nd_size(); ASSUME(n <= 6);
	size_t cut = nd_size(); ASSUME(cut <= n);
	size_t ip = 0, op = 0;
	lzma_ret r = auto_decode(&c, NULL, in, &ip, cut, out, &op, 4, LZMA_RUN);
	if (c.sequence != SEQ_FINISH) return;     /* the stream did not end in this call */
	CHECK(c.flags & LZMA_CONCATENATED, "only concatenated mode continues after the end of the stream");
	size_t end_pos = ip;
	if (end_pos < cut) { CHECK(r == LZMA_DATA_ERROR, "bytes after the stream in the same call: DATA_ERROR"); return; }
	CHECK(r == LZMA_OK, "stream ended exactly at the end of this call's input: waits for FINISH or more");
	/* later calls: any further byte is an error, FINISH without more input ends */
	lzma_ret r2 = auto_decode(&c, NULL, in, &ip, n, out, &op, 4, nd_bool() ? LZMA_FINISH : LZMA_RUN);
	if (n > end_pos) { CHECK(r2 == LZMA_DATA_ERROR, "a stream followed by anything is an error when concatenated decoding was requested, whatever the slicing"); WITNESS("trailing bytes arrive in a later call"); }
	else WITNESS("clean end");
}
