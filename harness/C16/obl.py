# C16 -- .lzma, .lz, auto-detection, concatenation rules
S = "src/liblzma/"
U = [S + "common/common.c"]
FL = ["--object-bits", "10"]
PSTUB = ["LZMA payload decoder = contract stub: records the options/filter id it is initialised with, consumes/produces arbitrary amounts, returns OK/STREAM_END/DATA_ERROR; lzma_lzma_decoder_memusage arbitrary",
         "lzma_crc32 = additive chaining hash (CRC32 itself: C14)"]
OBLIGATIONS = [
    Obligation(name="lzip_header_rules", src="lzip.c", func="harness_lzip_header", defs=["lzma_crc32=vstub_crc32", "VLOOP_MEM"], hdefs=["lzma_next_filter_init=vstub_next_filter_init"], qdefs=["NIN=8"], tdefs=["NIN=10"],
        unwind=12, units=U, flags=FL, stubs=PSTUB, timeout_q=280, timeout_t=1800,
        unwindset=[("lzip_decode", "^0", 4)], fp_restrict=["lzip_decode.function_pointer_call.1/pay_code"],
        functions=["lzip_decode"],
        desc=".lz member header for every byte string, first or later member, any cut into two calls, RUN/FINISH, all flags: wrong magic = FORMAT_ERROR for the first member and 'trailing data' (STREAM_END, not consumed past the matching prefix) for later ones; truncated magic between members ends with FINISH; version > 1 = OPTIONS_ERROR; dictionary size code valid iff 12 <= b <= 29 and not (b==12, frac>0), size = 2^b - frac*2^(b-4); fixed lc/lp/pb = 3/0/2, LZMA1 without known size; member size counts all 6 header bytes whatever the flags and slicing",
        bounds_q="<= 8 input bytes, one symbolic cut"),
    Obligation(name="lzip_footer_rules", src="lzip.c", func="harness_lzip_footer", defs=["lzma_crc32=vstub_crc32", "VLOOP_MEM"], hdefs=["lzma_next_filter_init=vstub_next_filter_init"], unwind=26, units=U, flags=FL, stubs=PSTUB,
        unwindset=[("lzip_decode", "^0", 3)], fp_restrict=["lzip_decode.function_pointer_call.1/pay_code"], functions=["lzip_decode"], timeout_q=280,
        desc=".lz member footer from ANY running totals: accepted exactly when CRC32 (unless ignore_check), data size and (version 1) member size equal the running values; single-member mode stops exactly after the footer leaving later bytes unread; any cut of the footer",
        bounds_q="all footer contents, v0 (12 bytes) and v1 (20 bytes), one symbolic cut"),
    Obligation(name="lzip_payload_accounting", src="lzip.c", func="harness_lzip_payload", defs=["lzma_crc32=vstub_crc32", "VLOOP_MEM"], hdefs=["lzma_next_filter_init=vstub_next_filter_init"], unwind=10, units=U, flags=FL, stubs=PSTUB,
        unwindset=[("lzip_decode", "^0", 3)], fp_restrict=["lzip_decode.function_pointer_call.1/pay_code"], functions=["lzip_decode"],
        desc="payload phase from any state: member size / data size / CRC32 advance by exactly what the payload decoder consumed and produced; the member is never complete while the payload runs",
        bounds_q="6 input / 6 output bytes per call"),
    Obligation(name="alone_header_rules", src="alone.c", func="harness_alone_header", defs=["VLOOP_MEM"], hdefs=["lzma_next_filter_init=vstub_next_filter_init", "lzma_lzma_decoder_init=vstub_lzma_decoder_init", "lzma_lzma_decoder_memusage=vstub_lzma_decoder_memusage"], unwind=34, units=U + [S + "lzma/lzma_decoder.c"], flags=FL, stubs=PSTUB[:1], timeout_q=280,
        unwindset=[("alone_decode", "", 16)], fp_restrict=["alone_decode.function_pointer_call.1/pay_code"], functions=["alone_decode", "lzma_alone_decoder_init", "lzma_lzma_lclppb_decode"],
        desc=".lzma header for every 13-byte string, picky (auto-detection) or not, any cut: accepted iff properties byte valid (lc+lp<=4) and, when picky, dictionary size is 2^n or 2^n+2^(n-1) or 2^32-1 and the size field is unknown or < 2^38; memory-limit gate before initialisation; lc/lp/pb, dictionary size and uncompressed size are passed down exactly, end marker allowed (LZMA1EXT)",
        bounds_q="all 2^104 headers, one symbolic cut"),
    Obligation(name="auto_detect", src="auto.c", func="harness_auto", defs=["VLOOP_MEM"], unwind=8, units=U, flags=FL, stubs=["the three sub-decoder init functions record the choice; payload = contract stub"],
        fp_restrict=["auto_decode.function_pointer_call.1/pay_code"],
        functions=["auto_decode", "lzma_alone_decoder_init"],
        desc="auto-detection: first byte 0xFD -> .xz decoder, 0x4C -> .lz decoder, anything else -> .lzma with the plausibility test; flags and memory limit forwarded; TELL_NO_CHECK reported for .lzma",
        bounds_q="all first bytes, all flags"),
    Obligation(name="auto_concatenated_rule", src="auto.c", func="harness_auto_finish", defs=["VLOOP_MEM"], unwind=8, units=U, flags=FL, stubs=["sub-decoder = contract stub"],
        fp_restrict=["auto_decode.function_pointer_call.1/pay_code"],
        functions=["auto_decode"],
        desc="with LZMA_CONCATENATED, after the sub-decoder reported the end of a stream: any further input byte is DATA_ERROR whether it arrives in the same call or in a later one; end of input needs LZMA_FINISH",
        bounds_q="<= 6 bytes, one symbolic cut, all flags"),
]
