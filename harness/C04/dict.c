/*
 * C04 / C03: the LZ decoder dictionary primitives (lz_decoder.h dict_repeat, dict_put,
 * dict_get, dict_write) and the wrap step of decode_buffer, as ONE INDUCTIVE STEP from an
 * arbitrary dictionary state satisfying the representation invariant.
 */
#include "vcommon.h"
#include "lz_decoder.c"

#ifndef DICT_BYTES
#define DICT_BYTES 4096    /* smallest dictionary the decoder ever allocates */
#endif
#ifndef REPEAT_PART
#define REPEAT_PART 0
#endif
#ifndef LENMAX
#define LENMAX 273
#endif
#define DSZ (DICT_BYTES + 2 * LZ_DICT_REPEAT_MAX)

static bool inv(const lzma_dict *d)
{
	if (d->size != DSZ) return false;
	if (!(d->pos <= d->limit && d->limit <= d->size)) return false;
	if (!d->has_wrapped) return d->pos >= LZ_DICT_INIT_POS && d->full == d->pos - LZ_DICT_INIT_POS;
	return d->pos >= LZ_DICT_REPEAT_MAX && d->full == d->size - LZ_DICT_INIT_POS;
}
static void mk(lzma_dict *d, uint8_t *buf)
{
	d->buf = buf; d->size = DSZ;
	d->pos = nd_size(); d->limit = nd_size(); d->full = nd_size();
	d->has_wrapped = nd_bool(); d->need_reset = false;
	ASSUME(inv(d));
}
/* index of the byte `distance`+1 positions before index p (the logical history) */
static size_t hist(const lzma_dict *d, size_t p, size_t distance)
{
	return p > distance ? p - distance - 1 : p - distance - 1 + d->size - LZ_DICT_REPEAT_MAX;
}

void harness_dict_repeat(void)
{
	struct arr { uint8_t b[DSZ + LZ_DICT_EXTRA]; } A, SNAP;   /* contents arbitrary (uninitialised = nondeterministic) */
	SNAP = A;
	uint8_t *buf = A.b; const uint8_t *snap = SNAP.b;
	lzma_dict d; mk(&d, buf);
	const lzma_dict d0 = d;
	uint32_t distance = nd_u32(), len = nd_u32();
	ASSUME(dict_is_distance_valid(&d, distance));     /* lzma_decode checks this before every match */
	ASSUME(len >= 1 && len <= LENMAX);
	uint32_t l = len;
	bool more = dict_repeat(&d, distance, &l);
	size_t copied = d.pos - d0.pos;
	size_t avail = d0.limit - d0.pos;
	CHECK(copied == (avail < len ? avail : len), "copies min(len, space up to the limit) bytes");
	CHECK(l == len - copied && more == (l != 0), "reports what is left");
	CHECK(inv(&d), "dictionary invariant preserved");
#if REPEAT_PART == 1
	size_t q = nd_size(); ASSUME(q < copied);
	CHECK(buf[d0.pos + q] == buf[hist(&d0, d0.pos + q, distance)], "every copied byte equals the byte distance+1 positions earlier in the history");
#elif REPEAT_PART == 2
	size_t r = nd_size(); ASSUME(r < d0.pos);
	CHECK(buf[r] == snap[r], "bytes before the write position are never modified");
	size_t t = nd_size(); ASSUME(t >= d.pos && t < DSZ + LZ_DICT_EXTRA);
	CHECK(buf[t] == snap[t], "nothing is written at or after the new position");
#endif
	(void)snap;
	if (d0.has_wrapped && distance >= d0.pos) WITNESS("match source wraps around the buffer");
	if (distance == d0.pos && d0.has_wrapped) WITNESS("distance equal to the write position");
	if (distance < copied) WITNESS("overlapping (run-length) copy");
}

void harness_dict_put_get(void)
{
	uint8_t buf[DSZ + LZ_DICT_EXTRA];
	lzma_dict d; mk(&d, buf);
	const lzma_dict d0 = d;
	uint32_t distance = nd_u32();
	ASSUME(dict_is_distance_valid(&d, distance));
	uint8_t g = dict_get(&d, distance);
	CHECK(g == buf[hist(&d, d.pos, distance)], "dict_get reads the history byte");
	uint8_t b = nd_u8();
	bool full = dict_put_safe(&d, b);
	CHECK(full == (d0.pos == d0.limit), "put refuses exactly at the limit");
	if (!full) { CHECK(d.pos == d0.pos + 1 && buf[d0.pos] == b && inv(&d), "byte stored, invariant kept"); CHECK(dict_get0(&d) == b, "dict_get0 is the byte just written"); WITNESS("put"); }
	else CHECK(d.pos == d0.pos && d.full == d0.full, "nothing changes when full");
}

/* wrap step of decode_buffer: when pos reaches size the last 288 bytes move to the front */
static lzma_ret lzstub(void *c, lzma_dict *restrict dict, const uint8_t *restrict in, size_t *restrict in_pos, size_t in_size)
{ (void)c; (void)dict; (void)in; (void)in_pos; (void)in_size; return LZMA_DATA_ERROR; }
void harness_wrap(void)
{
	static lzma_coder c;
	struct arr { uint8_t b[DSZ + LZ_DICT_EXTRA]; } A, SNAP;
	SNAP = A;
	uint8_t *buf = A.b; const uint8_t *snap = SNAP.b;
	mk(&c.dict, buf);
	c.dict.pos = DSZ; c.dict.limit = DSZ;
	c.dict.full = c.dict.has_wrapped ? DSZ - LZ_DICT_INIT_POS : DSZ - LZ_DICT_INIT_POS;
	c.lz.code = &lzstub; c.lz.coder = NULL;
	uint8_t in[1], out[4]; size_t ip = 0, op = 0;
	lzma_ret r = decode_buffer(&c, in, &ip, 0, out, &op, 4);
	CHECK(r == LZMA_DATA_ERROR, "stub status passes through");
	CHECK(c.dict.pos == LZ_DICT_REPEAT_MAX && c.dict.has_wrapped, "write position restarts after the repeat buffer");
	CHECK(c.dict.limit <= c.dict.size && c.dict.limit >= c.dict.pos && c.dict.limit - c.dict.pos <= 4, "limit = pos + min(output space, room)");
	size_t q = nd_size(); ASSUME(q < LZ_DICT_REPEAT_MAX);
	CHECK(buf[q] == snap[DSZ - LZ_DICT_REPEAT_MAX + q], "the last 288 bytes of history are copied to the front");
	/* every distance that is valid afterwards still finds the same byte */
	uint32_t dist = nd_u32(); ASSUME(dist < c.dict.full);
	size_t before = DSZ - 1 - dist;     /* index of that byte before the wrap */
	CHECK(dict_get(&c.dict, dist) == snap[before], "after the wrap every valid distance still addresses the same history byte");
	WITNESS("wrapped");
}
