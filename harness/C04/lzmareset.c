/*
 * C04 / C03: lzma_decoder_reset() - after a state reset (new LZMA2 chunk with state reset,
 * new Block, new .lzma stream) NOTHING of the previous decoding state survives.
 */
#include "vcommon.h"
#include "lzma_decoder.c"
#ifndef LC
#define LC 3
#define LP 0
#define PB 2
#endif

void harness_decoder_reset(void)
{
	static lzma_lzma1_decoder c;
#ifdef VCBMC
	__CPROVER_havoc_object(&c);       /* arbitrary previous state */
#endif
	lzma_options_lzma o;
	o.lc = LC; o.lp = LP; o.pb = PB;   /* concrete per obligation: the table-initialisation loops then have concrete bounds */
	lzma_decoder_reset(&c, &o);
	CHECK(c.rep0 == 0 && c.rep1 == 0 && c.rep2 == 0 && c.rep3 == 0, "all four repeated-match distances are cleared");
	CHECK(c.state == STATE_LIT_LIT, "state machine at its initial state");
	CHECK(c.pos_mask == (1u << o.pb) - 1 && c.literal_context_bits == o.lc, "pb / lc taken from the options");
	CHECK(c.rc.range == UINT32_MAX && c.rc.code == 0 && c.rc.init_bytes_left == 5, "range decoder re-initialised");
	CHECK(c.sequence == SEQ_IS_MATCH && c.probs == NULL && c.symbol == 0 && c.limit == 0 && c.offset == 0 && c.len == 0, "no resume point of an earlier call survives");
	const probability init = RC_BIT_MODEL_TOTAL >> 1;
	uint32_t i = nd_u32() % STATES, j = nd_u32() % POS_STATES_MAX;
	if (j <= c.pos_mask) CHECK(c.is_match[i][j] == init && c.is_rep0_long[i][j] == init, "is_match / is_rep0_long probabilities reset");
	CHECK(c.is_rep[i] == init && c.is_rep0[i] == init && c.is_rep1[i] == init && c.is_rep2[i] == init, "is_rep* probabilities reset");
	uint32_t k = nd_u32() % DIST_STATES, m = nd_u32() % DIST_SLOTS;
	CHECK(c.dist_slot[k][m] == init, "distance slot probabilities reset");
	uint32_t n = nd_u32() % (FULL_DISTANCES - DIST_MODEL_END);
	CHECK(c.pos_special[n] == init, "pos_special probabilities reset");
	uint32_t a = nd_u32() % ALIGN_SIZE;
	CHECK(c.pos_align[a] == init, "alignment probabilities reset");
	uint32_t ps = nd_u32() % POS_STATES_MAX, l1 = nd_u32() % LEN_LOW_SYMBOLS, l2 = nd_u32() % LEN_HIGH_SYMBOLS;
	CHECK(c.match_len_decoder.choice == init && c.rep_len_decoder.choice2 == init, "length choice probabilities reset");
	if (ps < (1u << o.pb)) CHECK(c.match_len_decoder.low[ps][l1] == init && c.rep_len_decoder.mid[ps][l1] == init, "length low/mid probabilities reset");
	CHECK(c.match_len_decoder.high[l2] == init && c.rep_len_decoder.high[l2] == init, "length high probabilities reset");
	uint32_t lit = nd_u32() % (LITERAL_CODER_SIZE << (o.lc + o.lp));
	CHECK(c.literal[lit] == init, "literal probabilities for the configured lc+lp reset");
	WITNESS("reached");
}
