/*
 * C04 / C03 / C05: the MicroLZMA decoder wrapper (microlzma_decoder.c microlzma_decoder_init +
 * microlzma_decode) on every first byte, every declared compressed / uncompressed size and both
 * meanings of the uncompressed size, in every slicing:
 *   - the inverted first byte is the lc/lp/pb properties byte; invalid ones -> OPTIONS_ERROR;
 *   - the LZMA decoder is created with exactly the given dictionary size, without EOPM
 *     permission, with the uncompressed size iff it is exact, and is first fed one 0x00 byte;
 *   - never more than comp_size input bytes are read, and with an inexact size never more than
 *     uncomp_size output bytes are written;
 *   - exact size: STREAM_END only if the LZMA data ended exactly at comp_size, DATA_ERROR if it
 *     ended earlier; inexact size: STREAM_END exactly when uncomp_size bytes were produced,
 *     an end of the LZMA data before that is DATA_ERROR.
 *
 * Stub: the LZMA1 decoder (lzma_next_filter_init + lzma.code): its data is 1 + P bytes (the
 * leading byte must be 0x00) decoding to U bytes; arbitrary progress per call inside the limits
 * it is given; STREAM_END exactly when both are complete.
 */
#include "vcommon.h"
#include "microlzma_decoder.c"

#ifndef PMAX
#define PMAX 5
#endif
#ifndef CALLS
#define CALLS 2
#endif
#define NIN (PMAX + 3)
#define NOUT (PMAX + 2)

static size_t g_P, g_U, g_ci, g_uo;
static bool g_got_dummy, g_inited;
static lzma_options_lzma g_opt;
static lzma_vli g_id;
static const uint8_t *g_inbase; static uint8_t *g_outbase;
static uint64_t g_comp_size, g_uncomp_size; static bool g_exact;

static lzma_ret lz_code(void *c, const lzma_allocator *a, const uint8_t *restrict in,
		size_t *restrict in_pos, size_t in_size, uint8_t *restrict out,
		size_t *restrict out_pos, size_t out_size, lzma_action action)
{
	(void)c; (void)a; (void)action;
	CHECK(*in_pos <= in_size && *out_pos <= out_size, "LZMA decoder called with positions inside its limits");
	if (!g_got_dummy) {
		CHECK(in != g_inbase && in_size == 1 && *in_pos == 0 && in[0] == 0x00, "the LZMA decoder is first fed a single 0x00 byte in place of the properties byte");
		g_got_dummy = true;
		*in_pos = 1;
		return LZMA_OK;
	}
	CHECK(in == g_inbase && in_size <= g_comp_size, "the LZMA decoder is never offered input beyond comp_size");
	if (!g_exact)
		CHECK(out == g_outbase && out_size <= g_uncomp_size, "with an inexact size the LZMA decoder is never offered output space beyond uncomp_size");
	size_t di = nd_size(), dout = nd_size();
	ASSUME(di <= in_size - *in_pos && di <= g_P - g_ci);
	ASSUME(dout <= out_size - *out_pos && dout <= g_U - g_uo);
	*in_pos += di; *out_pos += dout; g_ci += di; g_uo += dout;
	if (g_ci == g_P && g_uo == g_U)
		return LZMA_STREAM_END;
	ASSUME((g_ci < g_P && *in_pos == in_size) || (g_uo < g_U && *out_pos == out_size));
	return LZMA_OK;
}

lzma_ret vstub_next_filter_init(lzma_next_coder *next, const lzma_allocator *a, const lzma_filter_info *f)
{
	(void)a;
	g_inited = true;
	g_id = f[0].id;
	g_opt = *(const lzma_options_lzma *)f[0].options;
	CHECK(f[1].init == NULL, "LZMA is the only filter");
	next->code = &lz_code; next->coder = NULL; next->end = NULL;
	return LZMA_OK;
}

void harness_microlzma(void)
{
	uint8_t in[NIN], out[NOUT];
	nd_bytes(in, NIN);
	g_inbase = in; g_outbase = out;
	size_t n = nd_size(); ASSUME(n <= NIN);
	g_comp_size = nd_u64(); g_uncomp_size = nd_u64(); g_exact = nd_bool();
	const uint32_t dict_size = nd_u32();
	ASSUME(g_comp_size <= NIN);
	g_P = nd_size(); g_U = nd_size();
	ASSUME(g_P <= PMAX && g_U <= PMAX);

	lzma_next_coder next = LZMA_NEXT_CODER_INIT;
	lzma_ret r = microlzma_decoder_init(&next, NULL, g_comp_size, g_uncomp_size, g_exact, dict_size);
	if (g_uncomp_size > LZMA_VLI_MAX) { CHECK(r == LZMA_OPTIONS_ERROR, "uncompressed size beyond the VLI range refused"); return; }
	CHECK(r == LZMA_OK, "init succeeds");
	ASSUME(g_uncomp_size <= PMAX + 1);
	/* a decoder that knows the size stops there; one that does not runs to the end of its data */
	if (g_exact) ASSUME(g_U == g_uncomp_size);

	/* properties byte */
	const uint8_t pbyte = (uint8_t)~in[0];
	const bool props_ok = pbyte <= 224 && (pbyte % 9) + ((pbyte % 45) / 9) <= 4;

	size_t in_pos = 0, out_pos = 0;
	lzma_ret ret = LZMA_OK;
	for (unsigned k = 0; k < CALLS + 1; ++k) if (ret == LZMA_OK) {
		size_t in_end = n, out_end = NOUT;
		if (k < CALLS) {
			in_end = nd_size(); out_end = nd_size();
			ASSUME(in_end >= in_pos && in_end <= n);
			ASSUME(out_end >= out_pos && out_end <= NOUT);
		}
		const size_t ip0 = in_pos, op0 = out_pos;
		ret = next.code(next.coder, NULL, in, &in_pos, in_end, out, &out_pos, out_end, LZMA_RUN);
		CHECK(in_pos >= ip0 && in_pos <= in_end, "input position stays inside the slice");
		CHECK(out_pos >= op0 && out_pos <= out_end, "output position stays inside the slice");
		CHECK(ret == LZMA_OK || ret == LZMA_STREAM_END || ret == LZMA_DATA_ERROR || ret == LZMA_OPTIONS_ERROR, "documented codes only");
		CHECK(in_pos <= g_comp_size, "never reads more than comp_size bytes");
		if (!g_exact) CHECK(out_pos <= g_uncomp_size, "never writes more than uncomp_size bytes when the size is inexact");
	}
	if (n >= 1 && g_comp_size >= 1) {
		if (!props_ok) {
			CHECK(ret == LZMA_OPTIONS_ERROR && !g_inited && in_pos == 0, "invalid properties byte: OPTIONS_ERROR, nothing consumed, no decoder created");
			WITNESS("invalid properties");
			return;
		}
		CHECK(g_inited && g_got_dummy, "LZMA decoder created and primed");
		CHECK(g_id == LZMA_FILTER_LZMA1EXT, "created as LZMA1EXT");
		CHECK(g_opt.lc == pbyte % 9 && g_opt.lp == (pbyte % 45) / 9 && g_opt.pb == pbyte / 45, "lc/lp/pb from the inverted first byte");
		CHECK(g_opt.dict_size == dict_size && g_opt.preset_dict == NULL && g_opt.ext_flags == 0, "given dictionary size, no preset dictionary, end marker not allowed");
		const uint64_t ext = ((uint64_t)g_opt.ext_size_high << 32) | g_opt.ext_size_low;
		CHECK(ext == (g_exact ? g_uncomp_size : UINT64_MAX), "uncompressed size passed on exactly when it is exact");
	} else {
		CHECK(ret == LZMA_OK && !g_inited, "nothing happens without the first byte");
	}
	if (ret == LZMA_STREAM_END) {
		if (g_exact) {
			CHECK(g_ci == g_P && g_uo == g_U && in_pos == g_comp_size, "exact size: success only if the LZMA data ended exactly at comp_size");
			WITNESS("exact-size stream accepted");
		} else {
			CHECK(out_pos == g_uncomp_size, "inexact size: success exactly when uncomp_size bytes were produced");
			CHECK(!(g_ci == g_P && g_uo == g_U) || g_uncomp_size == 0, "inexact size: the LZMA data must not have ended");
			WITNESS("inexact-size stream accepted");
		}
	}
	if (ret == LZMA_DATA_ERROR) {
		CHECK(g_ci == g_P && g_uo == g_U, "DATA_ERROR only after the LZMA data ended (too early, or at all when the size is inexact)");
		WITNESS("rejected");
	}
	if (props_ok && n >= 1 && g_exact && n >= g_comp_size && 1 + g_P == g_comp_size)
		CHECK(ret == LZMA_STREAM_END, "a consistent exact-size stream is accepted once all of it was given");
}
