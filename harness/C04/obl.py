# C04 -- no input can make a decoder or parser misbehave.
# Every obligation of every property runs with CBMC's memory-safety and UB checks, source
# assert()s and unwinding assertions enabled; the decoder/parser obligations are re-run here,
# plus C04-specific ones.
S = "src/liblzma/"
FL = ["--object-bits", "10"]
OBLIGATIONS = []
DICT = dict(src="dict.c", qdefs=["DICT_BYTES=1024", "LENMAX=8", "VLOOP_MEM"], tdefs=["DICT_BYTES=4096", "LENMAX=32", "VLOOP_MEM"], qunwind=11, tunwind=36, mem_gb=16,
            units=[S + "common/common.c"], flags=FL, replay=False, timeout_q=280, timeout_t=1800,
            stubs=["dictionary buffer = 2*288 repeat bytes + a 64-byte dictionary in the quick tier (scaled: the primitives only use dict->size symbolically; the real minimum of 4096 is used in the thorough tier), contents arbitrary; LZ_DICT_EXTRA = 0 (memcpy variant; the SSE2 variant of dict_repeat is outside: no SSE model in CBMC)"])
OBLIGATIONS += [
    Obligation(name="dict_repeat_safety", func="harness_dict_repeat", defs=["REPEAT_PART=0"], unwindset=[("vmemcpy", "", (10, 36))], functions=["dict_repeat", "dict_is_distance_valid"],
        desc="dict_repeat from ANY dictionary state satisfying the invariant (pos/limit/full/has_wrapped), any valid distance and length 1..273: no access outside the buffer, copies min(len, room) bytes, reports the rest, invariant preserved",
        bounds_q="1600-byte buffer (1 KiB dictionary), len <= 8", bounds_t="4672-byte buffer (4 KiB dictionary), len <= 32", **DICT),
    Obligation(name="dict_repeat_content", func="harness_dict_repeat", defs=["REPEAT_PART=1"], tiers=("thorough",), unwindset=[("vmemcpy", "", (10, 36))], functions=["dict_repeat", "dict_is_distance_valid"],
        desc="dict_repeat from ANY dictionary state satisfying the invariant (pos/limit/full/has_wrapped), any valid distance and length 1..273: every copied byte equals the history byte at that distance (incl. overlapping copies and sources that wrap around the buffer)",
        bounds_q="1600-byte buffer (1 KiB dictionary), len <= 8", bounds_t="4672-byte buffer (4 KiB dictionary), len <= 32", **DICT),
    Obligation(name="dict_repeat_frame", func="harness_dict_repeat", defs=["REPEAT_PART=2"], tiers=("thorough",), unwindset=[("vmemcpy", "", (10, 36))], functions=["dict_repeat", "dict_is_distance_valid"],
        desc="dict_repeat from ANY dictionary state satisfying the invariant (pos/limit/full/has_wrapped), any valid distance and length 1..273: never modifies bytes before the write position nor at/after the new one",
        bounds_q="1600-byte buffer (1 KiB dictionary), len <= 8", bounds_t="4672-byte buffer (4 KiB dictionary), len <= 32", **DICT),
    Obligation(name="dict_put_get_step", func="harness_dict_put_get", unwindset=[("vmemcpy", "", 4)], functions=["dict_get", "dict_put", "dict_put_safe", "dict_get0"],
        desc="dict_get / dict_put_safe / dict_get0 from any valid state: reads the history byte at the distance, refuses to write exactly at the limit, invariant preserved", bounds_q="640-byte buffer (quick) / 4672 (thorough)", **DICT),
    Obligation(name="dict_wrap_step", func="harness_wrap", unwindset=[("vmemcpy", "", 292)], functions=["decode_buffer", "dict_get"],
        desc="the wrap step of decode_buffer when the write position reaches the end: last 288 bytes copied to the front, position restarts at 288, and EVERY distance valid afterwards still addresses the same history byte", bounds_q="4672-byte dictionary",
        fp_restrict=["decode_buffer.function_pointer_call.1/lzstub"], **DICT),
]
OBLIGATIONS += reuse("C03", r".")            # header decoders on all inputs
OBLIGATIONS += reuse("C05", r"stream_|block_to|block_body_rules|index_hash_exact_(1call|sliced)")   # stream_decode from arbitrary states, Block body, Index verification
OBLIGATIONS += reuse("C16", r".")            # .lz / .lzma / auto decoders
OBLIGATIONS += reuse("C06", r"vli_decode")
OBLIGATIONS += reuse("C15", r"_roundtrip$|_reference$", tiers=("thorough",))   # BCJ/delta kernels: no out-of-buffer access
OBLIGATIONS += reuse("C11", r".")            # documented status codes only
OBLIGATIONS += [
    Obligation(name="lzma_decoder_reset_lc3lp0pb2", src="lzmareset.c", func="harness_decoder_reset", defs=["LZMA_RANGE_DECODER_CONFIG=0", "LC=3", "LP=0", "PB=2"], tiers=("quick", "thorough"), unwind=20, units=[S + "common/common.c"], flags=FL + ["--max-field-sensitivity-array-size", "20000"], replay=False, timeout_q=280,
        unwindset=[("lzma_decoder_reset", "", 600), ("literal_init", "", 12400)], mem_gb=12,
        functions=["lzma_decoder_reset", "literal_init", "rc_reset"],
        desc="lzma_decoder_reset from an ARBITRARY previous decoder state (whole 28 KB struct havocked), lc/lp/pb = 3/0/2: all four rep distances zero, state initial, range decoder re-initialised, resume point cleared, and every probability (symbolic index into each table) back to the initial value - nothing of the previous chunk/stream survives a reset",
        bounds_q="lc/lp/pb = 3/0/2; all table entries (symbolic index)"),
    Obligation(name="lzma_decoder_reset_lc0lp4pb4", src="lzmareset.c", func="harness_decoder_reset", defs=["LZMA_RANGE_DECODER_CONFIG=0", "LC=0", "LP=4", "PB=4"], tiers=("thorough",), unwind=20, units=[S + "common/common.c"], flags=FL + ["--max-field-sensitivity-array-size", "20000"], replay=False, timeout_q=280,
        unwindset=[("lzma_decoder_reset", "", 600), ("literal_init", "", 12400)], mem_gb=12,
        functions=["lzma_decoder_reset", "literal_init", "rc_reset"],
        desc="lzma_decoder_reset from an ARBITRARY previous decoder state (whole 28 KB struct havocked), lc/lp/pb = 0/4/4: all four rep distances zero, state initial, range decoder re-initialised, resume point cleared, and every probability (symbolic index into each table) back to the initial value - nothing of the previous chunk/stream survives a reset",
        bounds_q="lc/lp/pb = 0/4/4; all table entries (symbolic index)"),
    Obligation(name="lzma_decoder_reset_lc4lp0pb0", src="lzmareset.c", func="harness_decoder_reset", defs=["LZMA_RANGE_DECODER_CONFIG=0", "LC=4", "LP=0", "PB=0"], tiers=("thorough",), unwind=20, units=[S + "common/common.c"], flags=FL + ["--max-field-sensitivity-array-size", "20000"], replay=False, timeout_q=280,
        unwindset=[("lzma_decoder_reset", "", 600), ("literal_init", "", 12400)], mem_gb=12,
        functions=["lzma_decoder_reset", "literal_init", "rc_reset"],
        desc="lzma_decoder_reset from an ARBITRARY previous decoder state (whole 28 KB struct havocked), lc/lp/pb = 4/0/0: all four rep distances zero, state initial, range decoder re-initialised, resume point cleared, and every probability (symbolic index into each table) back to the initial value - nothing of the previous chunk/stream survives a reset",
        bounds_q="lc/lp/pb = 4/0/0; all table entries (symbolic index)"),
    Obligation(name="lzma_decoder_reset_lc0lp0pb0", src="lzmareset.c", func="harness_decoder_reset", defs=["LZMA_RANGE_DECODER_CONFIG=0", "LC=0", "LP=0", "PB=0"], tiers=("thorough",), unwind=20, units=[S + "common/common.c"], flags=FL + ["--max-field-sensitivity-array-size", "20000"], replay=False, timeout_q=280,
        unwindset=[("lzma_decoder_reset", "", 600), ("literal_init", "", 12400)], mem_gb=12,
        functions=["lzma_decoder_reset", "literal_init", "rc_reset"],
        desc="lzma_decoder_reset from an ARBITRARY previous decoder state (whole 28 KB struct havocked), lc/lp/pb = 0/0/0: all four rep distances zero, state initial, range decoder re-initialised, resume point cleared, and every probability (symbolic index into each table) back to the initial value - nothing of the previous chunk/stream survives a reset",
        bounds_q="lc/lp/pb = 0/0/0; all table entries (symbolic index)"),
]
OBLIGATIONS += reuse("C13", r"file_info_")   # file-info decoder: seeks stay inside the file, no endless loop
OBLIGATIONS.append(Obligation(
    name="microlzma_wrapper", src="microlzma.c", func="harness_microlzma",
    units=[S + "common/common.c", S + "lzma/lzma_decoder.c"], hdefs=["lzma_next_filter_init=vstub_next_filter_init"],
    qdefs=["PMAX=5", "CALLS=2"], tdefs=["PMAX=8", "CALLS=3"], qunwind=9, tunwind=12, timeout_q=400, timeout_t=3000,
    fp_restrict=["harness_microlzma.function_pointer_call.1/microlzma_decode",
                 "microlzma_decode.function_pointer_call.1/lz_code", "microlzma_decode.function_pointer_call.2/lz_code"],
    functions=["microlzma_decoder_init", "microlzma_decode", "lzma_lzma_lclppb_decode"],
    stubs=["LZMA1 decoder (lzma_next_filter_init + lzma.code): data is 0x00 + P bytes decoding to U bytes; arbitrary progress per call inside its limits; STREAM_END exactly when both complete; a decoder told the exact size has U equal to it"],
    desc="MicroLZMA decoder wrapper: every first byte (inverted lc/lp/pb, invalid -> OPTIONS_ERROR), every comp_size / uncomp_size, exact and inexact, every slicing: decoder created with the given dictionary size, no end-marker permission, size passed iff exact, primed with one 0x00 byte; never reads beyond comp_size nor (inexact) writes beyond uncomp_size; STREAM_END / DATA_ERROR exactly per the size rules; documented codes only",
    bounds_q="comp_size <= 8, LZMA data <= 5 bytes, output <= 5 bytes, 2 symbolic cut points + final call",
    bounds_t="LZMA data / output <= 8 bytes, 3 cut points",
    outside="the LZMA1 decoder itself"))
