/*
 * C01 O-a (wrapper part): lzma_mf_find() - the extension of a nice_len-long match - for an
 * arbitrary window and an arbitrary (genuine) candidate reported by the match finder proper.
 */
#include "vcommon.h"
#include "lz_encoder_mf.c"

#ifndef WIN
#define WIN 24
#endif
static uint8_t win[WIN + LZMA_MEMCMPLEN_EXTRA];
static uint32_t st_count; static lzma_match st_m[2];
static uint32_t stub_find(lzma_mf *mf, lzma_match *matches)
{
	/* the match finder proper consumed one byte and reports its candidates */
	for (uint32_t i = 0; i < st_count; ++i) matches[i] = st_m[i];
	++mf->read_pos;
	return st_count;
}

void harness_mf_find(void)
{
	static lzma_mf mf;
	mf.buffer = win; mf.size = WIN;
	for (unsigned i = 0; i < WIN; ++i) win[i] = nd_u8();
	for (unsigned i = WIN; i < WIN + LZMA_MEMCMPLEN_EXTRA; ++i) win[i] = 0;   /* fill_window zeroes the guard bytes */
	mf.write_pos = nd_u32(); mf.read_pos = nd_u32();
	mf.nice_len = 2 + nd_u32() % 3; mf.match_len_max = nd_u32() % 12;
	mf.read_ahead = 0; mf.find = &stub_find;
	ASSUME(mf.write_pos <= WIN && mf.read_pos < mf.write_pos);
	ASSUME(mf.nice_len <= mf.match_len_max);
	/* guard bytes after write_pos are zero, as fill_window leaves them */
	for (unsigned i = 0; i < WIN; ++i) if (i >= mf.write_pos) win[i] = 0;
	const uint32_t pos = mf.read_pos;                    /* position being matched */
	const uint32_t avail = mf.write_pos - pos;           /* bytes from pos to end of data */
	st_count = nd_u32() % 2;
	st_m[0].len = nd_u32(); st_m[0].dist = nd_u32();
	if (st_count) {
		/* contract of find(): genuine match, len <= nice_len, len <= available bytes, dist inside the window */
		ASSUME(st_m[0].len >= 2 && st_m[0].len <= mf.nice_len && st_m[0].len <= avail);
		ASSUME(st_m[0].dist < pos);
		for (uint32_t i = 0; i < 8; ++i) if (i < st_m[0].len) ASSUME(win[pos + i] == win[pos - st_m[0].dist - 1 + i]);
	}
	uint32_t count = 99; lzma_match out[2];
	uint32_t best = lzma_mf_find(&mf, &count, out);
	CHECK(count == st_count, "count passed through");
	if (count == 0) { CHECK(best == 0, "no match"); return; }
	CHECK(best >= st_m[0].len, "never shorter than the reported match");
	CHECK(best <= avail, "the (extended) match never reaches past the end of the input");
	CHECK(best <= mf.match_len_max, "nor past the format's maximum match length");
	size_t q = nd_size(); ASSUME(q < best);
	CHECK(win[pos + q] == win[pos - out[0].dist - 1 + q], "every byte of the extended match really matches");
	CHECK(mf.read_ahead == 1 && mf.read_pos == pos + 1, "position bookkeeping");
	if (best > st_m[0].len) WITNESS("match was extended");
	if (best == avail && st_m[0].len == mf.nice_len) WITNESS("extension stopped exactly at the end of the input");
}
