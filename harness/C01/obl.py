# C01 -- compression is lossless: the layers around the LZMA symbol coder (see DESIGN.md C01)
S = "src/liblzma/"
FL = ["--object-bits", "10"]
OBLIGATIONS = [
    Obligation(name="lz_window_geometry", src="lzwin.c", func="harness_prepare", unwind=4, units=[S + "common/common.c"], flags=FL,
        functions=["lz_encoder_prepare"], stubs=["match-finder entry points: recording stubs"],
        desc="lz_encoder_prepare for every option set the LZMA encoder can pass (all dict sizes, before/after sizes, match_len_max, nice_len, 5 match finders): refused exactly for dictionary sizes outside 4 KiB..1.5 GiB; history kept = dict + before; look-ahead kept >= after + match_len_max; window size does not wrap; cyclic size = dict+1; son/hash table sizes",
        bounds_q="all 32-bit dict sizes, before/after < 8 KiB, lengths < 512"),
    Obligation(name="lz_window_fill", src="lzwin.c", func="harness_fill_window", defs=["VLOOP_MEM"], qdefs=["WSIZE=32"], tdefs=["WSIZE=64"], qunwind=34, tunwind=66,
        unwindset=[("vmemcpy", "", 18), ("vmemset", "", 18), ("nd_bytes", "", 18)], units=[S + "common/common.c"], flags=FL, timeout_q=280,
        functions=["fill_window", "move_window", "lzma_bufcpy"], stubs=["match finder skip(): records its argument and advances read_pos; no next filter (input copied)"],
        desc="one fill_window step from an ARBITRARY valid window state (32-byte window in the quick tier, 64 in the thorough tier; symbolic keep sizes, positions, pending count, offset) with symbolic input and action: kept history and unread data survive move_window byte for byte, input is appended in order, positions keep denoting the same absolute bytes, RUN mode exposes data to the match finder only with a full look-ahead, flush/finish exposes everything once all input is taken, pending bytes are re-fed exactly once",
        bounds_q="window 32 bytes, keep sizes <= 8, input <= 16 bytes, every action"),
]
OBLIGATIONS += reuse("C02", r"lzma2_dict_size_byte|lzma1_props_bytes")   # declared dictionary >= used dictionary
OBLIGATIONS += reuse("C15", r"_roundtrip$")                                # BCJ / delta chains are lossless
OBLIGATIONS += [
    Obligation(name="mf_find_extension", src="mffind.c", func="harness_mf_find", qdefs=["WIN=14"], tdefs=["WIN=24"], qunwind=20, tunwind=42, units=[], flags=FL, timeout_q=280,
        functions=["lzma_mf_find", "lzma_memcmplen"], stubs=["mf->find (the match finder proper): returns 0 or 1 candidate satisfying its contract (genuine match, len <= nice_len and <= available bytes, distance inside the window)"],
        desc="lzma_mf_find for an arbitrary window, position, nice_len/match_len_max and candidate: the returned (possibly extended) match is at least as long as the candidate, every byte of it really matches, it never reaches past the end of the buffered input nor past match_len_max",
        bounds_q="window 14 bytes, nice_len 2..4, match_len_max < 12"),
]
