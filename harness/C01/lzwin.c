/*
 * C01 O-c / C06 / C12: the LZ encoder's sliding window (lz_encoder.c: lz_encoder_prepare,
 * move_window, fill_window, lz_encode) from ARBITRARY window states.
 */
#include "vcommon.h"
#include "lz_encoder.c"

/* match finder entry points referenced by lz_encoder_prepare: recording stubs */
static unsigned g_skips; static uint32_t g_skip_amount;
#define MFSTUB(n) uint32_t lzma_mf_##n##_find(lzma_mf *mf, lzma_match *m) { (void)mf; (void)m; return 0; } \
	void lzma_mf_##n##_skip(lzma_mf *mf, uint32_t k) { ++g_skips; g_skip_amount = k; mf->read_pos += k; }
MFSTUB(hc3) MFSTUB(hc4) MFSTUB(bt2) MFSTUB(bt3) MFSTUB(bt4)

/* W1: geometry chosen by lz_encoder_prepare for every accepted option set */
void harness_prepare(void)
{
	lzma_lz_options o;
	memset(&o, 0, sizeof(o));
	o.before_size = nd_u32() & 0x1FFF; o.after_size = nd_u32() & 0x1FFF;
	o.dict_size = nd_u32(); o.match_len_max = nd_u32() & 0x1FF; o.nice_len = nd_u32() & 0x1FF;
	static const lzma_match_finder mfs[5] = { LZMA_MF_HC3, LZMA_MF_HC4, LZMA_MF_BT2, LZMA_MF_BT3, LZMA_MF_BT4 };
	o.match_finder = mfs[nd_u32() % 5];
	o.depth = nd_u32();
	ASSUME(o.match_len_max >= 2 && o.nice_len >= 4 && o.nice_len <= o.match_len_max);   /* what the LZMA encoder passes */
	static lzma_mf mf;
	bool bad = lz_encoder_prepare(&mf, NULL, &o);
	bool valid_dict = o.dict_size >= 4096 && o.dict_size <= (UINT32_C(1) << 30) + (UINT32_C(1) << 29);
	CHECK(bad == !valid_dict, "options refused exactly when the dictionary size is outside 4 KiB .. 1.5 GiB");
	if (bad) return;
	CHECK(mf.keep_size_before == o.before_size + o.dict_size, "history kept = dictionary + before_size");
	CHECK(mf.keep_size_after >= o.after_size + o.match_len_max, "look-ahead kept covers the longest possible match (so what the match finder sees in RUN mode never depends on when input arrives)");
	CHECK((uint64_t)mf.size > (uint64_t)mf.keep_size_before + mf.keep_size_after, "window has room beyond the mandatory parts");
	uint64_t reserve = o.dict_size / 2; if (reserve > (1u << 30)) reserve /= 2;
	reserve += (o.before_size + o.match_len_max + o.after_size) / 2 + (1u << 19);
	CHECK((uint64_t)mf.size == (uint64_t)mf.keep_size_before + reserve + mf.keep_size_after, "window size does not wrap in 32 bits");
	CHECK(mf.cyclic_size == o.dict_size + 1, "cyclic buffer covers exactly the dictionary");
	bool bt = (o.match_finder & 0x10) != 0;
	CHECK(mf.sons_count == (bt ? 2 : 1) * (uint64_t)mf.cyclic_size, "son table size");
	CHECK(((uint64_t)mf.hash_mask + 1 & mf.hash_mask) == 0 && mf.hash_mask >= 0xFFFF, "main hash mask is 2^k - 1, at least 64 Ki entries");
	CHECK(mf.match_len_max == o.match_len_max && mf.nice_len == o.nice_len, "limits copied");
	CHECK(mf.depth != 0, "depth defaulted when 0");
	WITNESS("accepted options");
}

/* W2: one fill_window step from an arbitrary valid window state */
#ifndef WSIZE
#define WSIZE 48
#endif
static uint8_t wbuf[WSIZE + LZMA_MEMCMPLEN_EXTRA];
void harness_fill_window(void)
{
	static lzma_coder c;   /* static storage: zero-initialised */
	lzma_mf *mf = &c.mf;
	mf->buffer = wbuf; mf->size = WSIZE;
	mf->keep_size_before = nd_u32() % 9; mf->keep_size_after = 1 + nd_u32() % 8;
	mf->offset = nd_u32();
	mf->read_pos = nd_u32(); mf->write_pos = nd_u32(); mf->read_limit = nd_u32(); mf->pending = nd_u32();
	mf->read_ahead = 0; mf->action = LZMA_RUN;
	mf->skip = &lzma_mf_hc4_skip;
	/* representation invariant of the window */
	ASSUME(mf->read_pos <= mf->write_pos && mf->write_pos <= WSIZE);
	ASSUME(mf->read_limit <= mf->write_pos);
	ASSUME(mf->pending <= mf->read_pos);
	ASSUME(mf->keep_size_before + mf->keep_size_after + 8 < WSIZE);
	ASSUME(mf->read_pos == mf->read_limit);            /* the match finder never passes read_limit, and lz_encode calls fill_window only when it is reached */
	ASSUME(mf->keep_size_before >= 1);                 /* = before_size + dict_size >= 4096 in every real configuration */
	ASSUME(mf->pending <= mf->keep_size_before);       /* pending bytes lie inside the kept history */
	for (unsigned i = 0; i < WSIZE; ++i) wbuf[i] = nd_u8();
	uint8_t snap[WSIZE];
	for (unsigned i = 0; i < WSIZE; ++i) snap[i] = wbuf[i];
	const lzma_mf m0 = *mf;
	uint8_t in[16]; nd_bytes(in, 16);
	size_t n = nd_size(); ASSUME(n <= 16);
	size_t ip = 0;
	uint32_t a = nd_u32() % 5;   /* RUN, SYNC_FLUSH, FULL_FLUSH, FINISH, FULL_BARRIER */
	lzma_ret r = fill_window(&c, NULL, in, &ip, n, (lzma_action)a);
	CHECK(r == LZMA_OK, "fill_window itself does not fail");
	uint32_t moved = mf->offset - m0.offset;
	CHECK(m0.read_pos - moved + 0u == mf->read_pos + (g_skips ? 0 : 0) || g_skips, "read position denotes the same absolute byte after the window moved");
	CHECK(mf->write_pos <= WSIZE && mf->read_pos <= mf->write_pos && mf->read_limit <= mf->write_pos, "window invariant preserved");
	CHECK(mf->write_pos == m0.write_pos - moved + ip, "exactly the consumed input was appended");
	/* history and unread data survive the move: any kept byte is where it should be */
	size_t q = nd_size();
	ASSUME(q < m0.write_pos && q + m0.keep_size_before >= m0.read_pos);   /* a byte that must be kept */
	CHECK(q >= moved && wbuf[q - moved] == snap[q], "every byte of the kept history and of the unread data survives move_window");
	size_t k = nd_size(); ASSUME(k < ip);
	CHECK(wbuf[m0.write_pos - moved + k] == in[k], "new input is appended in order");
	if (a == LZMA_RUN || ip < n) {
		CHECK(mf->action == LZMA_RUN, "no flush state unless all input was taken with a flush/finish action");
		CHECK(mf->read_limit + mf->keep_size_after <= mf->write_pos || mf->read_limit == m0.read_limit - moved, "in RUN mode the match finder may only advance while a full look-ahead is buffered");
	} else {
		CHECK(mf->action == (lzma_action)a && mf->read_limit == mf->write_pos, "flush/finish: everything buffered becomes available to the encoder");
		WITNESS("flush with all input consumed");
	}
	if (g_skips) {
		CHECK(g_skips == 1 && g_skip_amount == m0.pending && mf->pending == 0, "pending bytes are re-fed to the match finder exactly once");
		WITNESS("pending replay");
	} else if (m0.pending > 0) {
		CHECK(mf->pending == m0.pending, "otherwise they stay pending");
	}
	if (moved > 0) { CHECK((moved & 15) == 0, "window moves by multiples of 16"); WITNESS("window moved"); }
}
