/*
 * C15: BCJ filter kernels.  Compiled once per filter with
 *   -DFSRC="<file>.c" -DFENC=<encode fn> -DFDEC=<decode fn> -DFALIGN=<alignment>
 *   -DFREF=<reference fn> (optional) -DIS_X86 (x86 only) -DNMAX=<max buffer bytes>
 * The real filter source is #included so its static functions are the code under test.
 */
#include "vcommon.h"
#include FSRC
#include "refs.h"

#ifndef NMAX
#define NMAX 8
#endif

#ifdef IS_X86
#define DECL_STATE(name) lzma_simple_x86 name
#define STATE_PTR(name) (&(name))
#else
#define DECL_STATE(name) int name
#define STATE_PTR(name) NULL
#endif

/* O-a: decode(encode(buf)) == buf from any aligned position (and, for x86, from any common
 * carried state); same number of bytes reported as processed; length unchanged; no access
 * outside buf[0..n). */
void harness_roundtrip(void)
{
	size_t n = nd_size();
	ASSUME(n <= NMAX);
	uint8_t buf[NMAX];
	uint8_t orig[NMAX];
	for (size_t i = 0; i < NMAX; ++i) {
		orig[i] = nd_u8();
		/* bytes at and after n belong to the caller, not to the filter: arbitrary
		 * values, so a read past n shows up as a result that depends on them */
		buf[i] = i < n ? orig[i] : nd_u8();
	}
	uint32_t now_pos = nd_u32();
	ASSUME((now_pos & (FALIGN - 1)) == 0);
	DECL_STATE(se);
	DECL_STATE(sd);
#ifdef IS_X86
	/* Initial state, as set by x86_coder_init() and lzma_bcj_x86_*().  (An arbitrary
	 * carried state is NOT a sound starting point: prev_mask encodes facts about the
	 * bytes preceding the buffer, and e.g. mask 8 with an operand low byte of 0x00 would
	 * loop forever although no real history produces it.  Carried state is covered by
	 * the split-call obligations instead.) */
	se.prev_mask = 0; se.prev_pos = (uint32_t)(-5);
	sd = se;
#endif
	size_t e = FENC(STATE_PTR(se), now_pos, true, buf, n);
	CHECK(e <= n, "encoder reports at most n bytes processed");
	bool changed = false;
	for (size_t i = 0; i < NMAX; ++i)
		if (i < n && buf[i] != orig[i])
			changed = true;
	uint8_t tail[NMAX];
	memcpy(tail, buf, NMAX);
	for (size_t i = 0; i < NMAX; ++i)
		if (i < n && i >= e)
			CHECK(buf[i] == orig[i], "bytes past the processed count are untouched");
	size_t d = FDEC(STATE_PTR(sd), now_pos, false, buf, n);
	CHECK(d == e, "decoder processes the same number of bytes as the encoder");
	for (size_t i = 0; i < NMAX; ++i)
		if (i < n)
			CHECK(buf[i] == orig[i], "decode(encode(x)) == x");
		else
			CHECK(buf[i] == tail[i], "bytes past the buffer length are never written");
#ifdef IS_X86
	CHECK(se.prev_mask == sd.prev_mask && se.prev_pos == sd.prev_pos,
			"x86 encoder and decoder states stay in lock step");
#endif
	if (changed)
		WITNESS("an address conversion happened");
}

#ifdef FREF
/* O-b: the transform equals the independent reference, both directions, every position. */
void harness_reference(void)
{
	size_t n = nd_size();
	ASSUME(n <= NMAX);
	uint8_t buf[NMAX];
	uint8_t ref[NMAX];
	uint8_t in0 = 0;
	for (size_t i = 0; i < NMAX; ++i) {
		ref[i] = nd_u8();
		buf[i] = i < n ? ref[i] : nd_u8();
	}
	uint32_t now_pos = nd_u32();
	ASSUME((now_pos & (FALIGN - 1)) == 0);
	bool enc = nd_bool();
	DECL_STATE(s);
	(void)in0;
	uint8_t before[NMAX];
	memcpy(before, ref, NMAX);
#ifdef IS_X86
	s.prev_mask = 0; s.prev_pos = (uint32_t)(-5);
	uint32_t rstate = 0;
	size_t r = ref_x86(now_pos, enc, ref, n, &rstate);
#else
	size_t r = FREF(now_pos, enc, ref, n);
#endif
	size_t g = enc ? FENC(STATE_PTR(s), now_pos, true, buf, n)
			: FDEC(STATE_PTR(s), now_pos, false, buf, n);
	CHECK(g == r, "processed count equals the reference's");
	bool changed = false;
	for (size_t i = 0; i < NMAX; ++i)
		if (i < n) {
			CHECK(buf[i] == ref[i], "output bytes equal the reference transform");
			if (buf[i] != before[i])
				changed = true;
		}
	if (changed)
		WITNESS("an address conversion happened");
}
#endif

/* O-d (kernel level): processing a buffer in two calls - the first on a prefix, the second
 * on the unprocessed rest with the position advanced and the filter state carried over, as
 * simple_code() does - gives the same bytes and the same total processed count as one call
 * on the whole buffer.  This is where x86's prev_mask/prev_pos state crosses a call boundary. */
void harness_kernel_split(void)
{
	size_t n = nd_size(), k = nd_size();
	ASSUME(n <= NMAX && k <= n);
	uint8_t one[NMAX], two[NMAX];
	for (size_t i = 0; i < NMAX; ++i) {
		one[i] = nd_u8();
		two[i] = one[i];
	}
	uint32_t now_pos = nd_u32();
	ASSUME((now_pos & (FALIGN - 1)) == 0);
	bool enc = nd_bool();
	DECL_STATE(s1);
	DECL_STATE(s2);
#ifdef IS_X86
	s1.prev_mask = 0; s1.prev_pos = (uint32_t)(-5);
	s2 = s1;
#endif
	size_t p = enc ? FENC(STATE_PTR(s1), now_pos, true, one, n) : FDEC(STATE_PTR(s1), now_pos, false, one, n);
	size_t p1 = enc ? FENC(STATE_PTR(s2), now_pos, true, two, k) : FDEC(STATE_PTR(s2), now_pos, false, two, k);
	CHECK(p1 <= k, "first call processes at most the prefix");
	size_t p2 = enc ? FENC(STATE_PTR(s2), now_pos + (uint32_t)p1, true, two + p1, n - p1)
			: FDEC(STATE_PTR(s2), now_pos + (uint32_t)p1, false, two + p1, n - p1);
	CHECK(p1 + p2 == p, "two calls process as many bytes in total as one call");
	bool changed = false;
	for (size_t i = 0; i < NMAX; ++i)
		if (i < n) {
			CHECK(one[i] == two[i], "two calls produce the same bytes as one call");
		}
	/* (the carried state itself may differ in representation - prev_pos is clamped to
	 * now_pos-5 at the start of each call - only its effect on later bytes matters) */
	(void)changed;
	if (k > 0 && k < n && p1 < k) WITNESS("split inside an unprocessed tail");
}
