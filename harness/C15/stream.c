/*
 * C15/C06: the streaming BCJ coder (simple_coder.c: simple_code, call_filter, copy_or_code,
 * lzma_simple_coder_init) around each real filter, driven with an arbitrary slicing of the
 * input and output buffers, compared with the one-shot application of the same filter to the
 * whole buffer (which is what lzma_bcj_*_encode/decode do).
 *
 *   -DFSRC="x86.c" -DFENC=.. -DFDEC=.. -DFALIGN=.. -DFINIT_ENC=lzma_simple_x86_encoder_init
 *   -DFINIT_DEC=lzma_simple_x86_decoder_init [-DIS_X86] -DNMAX=.. -DCALLS=..
 */
#include "vcommon.h"
#include "simple_coder.c"
#include FSRC

#ifndef NMAX
#define NMAX 8
#endif
#ifndef CALLS
#define CALLS 3
#endif
#ifndef DRAIN
#define DRAIN 3
#endif

/* Next coder in the chain for the decoder direction: a pass-through that reports
 * LZMA_STREAM_END once all input has been delivered with LZMA_FINISH (contract of a
 * decoder whose payload ends there). */
static lzma_ret
passthru_code(void *c, const lzma_allocator *a, const uint8_t *restrict in,
		size_t *restrict in_pos, size_t in_size, uint8_t *restrict out,
		size_t *restrict out_pos, size_t out_size, lzma_action action)
{
	(void)c; (void)a;
	lzma_bufcpy(in, in_pos, in_size, out, out_pos, out_size);
	if (action == LZMA_FINISH && *in_pos == in_size)
		return LZMA_STREAM_END;
	return LZMA_OK;
}

void harness_split(void)
{
	size_t n = nd_size();
	ASSUME(n <= NMAX);
	uint8_t in[NMAX], expect[NMAX], out[NMAX + 1];
	for (size_t i = 0; i < NMAX; ++i) {
		in[i] = nd_u8();
		expect[i] = in[i];
	}
	/* the direction is a compile-time constant (-DDIR_ENC=0/1) so that CBMC resolves the
	 * next.code function pointer without exploring simple_code recursively */
	const bool enc = DIR_ENC;
	lzma_options_bcj opt;
	opt.start_offset = nd_u32();
	ASSUME((opt.start_offset & (FALIGN - 1)) == 0);

	/* one-shot reference: the filter applied once to the whole buffer from the
	 * initial state; bytes after the processed count stay as they are */
#ifdef IS_X86
	lzma_simple_x86 st = { .prev_mask = 0, .prev_pos = (uint32_t)(-5) };
	void *stp = &st;
#else
	void *stp = NULL;
#endif
	if (enc)
		(void)FENC(stp, opt.start_offset, true, expect, n);
	else
		(void)FDEC(stp, opt.start_offset, false, expect, n);

	/* streaming coder */
	lzma_next_coder next = LZMA_NEXT_CODER_INIT;
	lzma_filter_info fi[2];
	fi[0].id = 0; fi[0].init = NULL; fi[0].options = &opt;
	fi[1].id = LZMA_VLI_UNKNOWN; fi[1].init = NULL; fi[1].options = NULL;
	lzma_ret r = enc ? FINIT_ENC(&next, NULL, fi) : FINIT_DEC(&next, NULL, fi);
	CHECK(r == LZMA_OK, "init succeeds for an aligned start offset");
	lzma_simple_coder *coder = next.coder;
	if (!enc)
		coder->next.code = &passthru_code;

	size_t in_pos = 0, out_pos = 0;
	lzma_ret ret = LZMA_OK;
	bool ended = false;
	for (unsigned c = 0; c < CALLS + DRAIN; ++c) {
		size_t in_end, out_end;
		lzma_action act;
		if (c < CALLS - 1) {
			in_end = nd_size();
			out_end = nd_size();
			ASSUME(in_end >= in_pos && in_end <= n);
			ASSUME(out_end >= out_pos && out_end <= NMAX + 1);
			act = LZMA_RUN;
		} else {
			in_end = n;
			out_end = c < CALLS ? nd_size() : NMAX + 1;
			ASSUME(out_end >= out_pos && out_end <= NMAX + 1);
			act = LZMA_FINISH;
		}
		size_t ip0 = in_pos, op0 = out_pos;
		ret = next.code(next.coder, NULL, in, &in_pos, in_end, out, &out_pos, out_end, act);
		CHECK(in_pos >= ip0 && in_pos <= in_end, "input position moves forward within the slice");
		CHECK(out_pos >= op0 && out_pos <= out_end, "output position moves forward within the slice");
		CHECK(ret == LZMA_OK || ret == LZMA_STREAM_END, "only OK or STREAM_END");
		if (ret == LZMA_STREAM_END) {
			ended = true;
			break;
		}
	}
	CHECK(ended, "stream ends within the call budget once all input is given with FINISH");
	CHECK(in_pos == n, "all input consumed");
	CHECK(out_pos == n, "output length equals input length");
	bool changed = false;
	for (size_t i = 0; i < NMAX; ++i)
		if (i < n) {
			CHECK(out[i] == expect[i], "sliced streaming output equals one-shot filter output");
			if (out[i] != in[i])
				changed = true;
		}
	if (changed)
		WITNESS("a conversion happened in a streamed run");
	next.end(next.coder, NULL);
}

/* start_offset validation: init fails with OPTIONS_ERROR exactly for misaligned offsets */
void harness_align(void)
{
	lzma_options_bcj opt;
	opt.start_offset = nd_u32();
	const bool enc = DIR_ENC;
	lzma_next_coder next = LZMA_NEXT_CODER_INIT;
	lzma_filter_info fi[2];
	fi[0].id = 0; fi[0].init = NULL; fi[0].options = &opt;
	fi[1].id = LZMA_VLI_UNKNOWN; fi[1].init = NULL; fi[1].options = NULL;
	lzma_ret r = enc ? FINIT_ENC(&next, NULL, fi) : FINIT_DEC(&next, NULL, fi);
	if (opt.start_offset % FALIGN != 0) {
		CHECK(r == LZMA_OPTIONS_ERROR, "misaligned start_offset is refused");
		WITNESS("misaligned offset case");
	} else {
		CHECK(r == LZMA_OK, "aligned start_offset is accepted");
		lzma_simple_coder *coder = next.coder;
		CHECK(coder->now_pos == opt.start_offset, "position starts at start_offset");
	}
	if (next.coder != NULL)
		next.end(next.coder, NULL);
}
