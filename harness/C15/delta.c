/*
 * C15: delta filter kernels (delta_encoder.c copy_and_encode / encode_in_place,
 * delta_decoder.c decode_buffer, delta_common.c init/memusage, props encode/decode)
 * from an ARBITRARY coder state (history contents, history position, distance).
 */
#include "vcommon.h"
#include "delta_common.c"
#include "delta_encoder.c"
#include "delta_decoder.c"

#ifndef NMAX
#define NMAX 6
#endif

/* byte that was seen j positions ago (1 <= j <= 256) according to the coder state */
static uint8_t past(const lzma_delta_coder *c, size_t j)
{
	return c->history[(uint8_t)(c->pos + j)];
}

static void havoc_coder(lzma_delta_coder *e)
{
	e->distance = nd_size();
	ASSUME(e->distance >= LZMA_DELTA_DIST_MIN && e->distance <= LZMA_DELTA_DIST_MAX);
	e->pos = nd_u8();
	/* history: arbitrary contents (left nondeterministic under CBMC rather than filled
	 * byte by byte; the replay build uses a fixed pattern) */
#ifdef VCBMC
	{ uint8_t h[LZMA_DELTA_DIST_MAX]; memcpy(e->history, h, sizeof(h)); }
#else
	for (size_t i = 0; i < LZMA_DELTA_DIST_MAX; ++i) e->history[i] = (uint8_t)(i * 37 + 11);
#endif
}

/* (a) copying encoder == reference  out[i] = in[i] - in[i-dist]  from ANY coder state */
void harness_delta_ref(void)
{
	lzma_delta_coder e;
	havoc_coder(&e);
	lzma_delta_coder m = e;
	size_t n = nd_size();
	ASSUME(n >= 1 && n <= NMAX);
	uint8_t in[NMAX], out[NMAX];
	for (size_t i = 0; i < NMAX; ++i)
		in[i] = nd_u8();
	copy_and_encode(&e, in, out, n);
	for (size_t i = 0; i < NMAX; ++i)
		if (i < n) {
			uint8_t prev = i >= m.distance ? in[i - m.distance] : past(&m, m.distance - i);
			CHECK(out[i] == (uint8_t)(in[i] - prev), "encoder output equals in[i] - in[i-dist]");
		}
	CHECK(e.pos == (uint8_t)(m.pos - n), "history position advances by n");
	for (size_t j = 1; j <= NMAX; ++j)
		if (j <= n)
			CHECK(past(&e, j) == in[n - j], "history holds the original bytes");
	if (n == NMAX)
		WITNESS("full-length run");
}

/* (b) encode_in_place == copy_and_encode (bytes and state) */
void harness_delta_inplace(void)
{
	lzma_delta_coder e;
	havoc_coder(&e);
	lzma_delta_coder e2 = e;
	size_t n = nd_size();
	ASSUME(n >= 1 && n <= NMAX);
	uint8_t in[NMAX], out[NMAX], inplace[NMAX];
	for (size_t i = 0; i < NMAX; ++i) {
		in[i] = nd_u8();
		inplace[i] = in[i];
	}
	copy_and_encode(&e, in, out, n);
	encode_in_place(&e2, inplace, n);
	for (size_t i = 0; i < NMAX; ++i)
		if (i < n)
			CHECK(inplace[i] == out[i], "encode_in_place equals copy_and_encode");
	CHECK(e.pos == e2.pos, "same history position");
	size_t q = nd_size();
	ASSUME(q < LZMA_DELTA_DIST_MAX);
	CHECK(e.history[q] == e2.history[q], "same history contents");
	if (n == NMAX)
		WITNESS("full-length run");
}

/* (c) decoder inverts encoder from the same state; states stay equal */
void harness_delta_roundtrip(void)
{
	lzma_delta_coder e;
	havoc_coder(&e);
	lzma_delta_coder d = e;
	size_t n = nd_size();
	ASSUME(n >= 1 && n <= NMAX);
	uint8_t in[NMAX], out[NMAX];
	for (size_t i = 0; i < NMAX; ++i)
		in[i] = nd_u8();
	copy_and_encode(&e, in, out, n);
	decode_buffer(&d, out, n);
	for (size_t i = 0; i < NMAX; ++i)
		if (i < n)
			CHECK(out[i] == in[i], "decode(encode(x)) == x");
	CHECK(d.pos == e.pos, "decoder and encoder history positions agree");
	size_t q = nd_size();
	ASSUME(q < LZMA_DELTA_DIST_MAX);
	CHECK(e.history[q] == d.history[q], "decoder and encoder histories agree");
	if (n == NMAX)
		WITNESS("full-length run");
}

/* options validation and property byte round trip */
void harness_delta_props(void)
{
	lzma_options_delta opt;
	opt.type = (lzma_delta_type)nd_u32();
	opt.dist = nd_u32();
	bool valid = opt.type == LZMA_DELTA_TYPE_BYTE && opt.dist >= 1 && opt.dist <= 256;
	uint64_t mu = lzma_delta_coder_memusage(&opt);
	CHECK((mu != UINT64_MAX) == valid, "options accepted exactly when type==BYTE and 1<=dist<=256");
	CHECK(lzma_delta_coder_memusage(NULL) == UINT64_MAX, "NULL options rejected");
	uint8_t prop = 0xAA;
	lzma_ret r = lzma_delta_props_encode(&opt, &prop);
	CHECK((r == LZMA_OK) == valid, "props encode succeeds exactly for valid options");
	if (valid) {
		CHECK(prop == opt.dist - 1, "property byte is dist-1");
		void *o = NULL;
		r = lzma_delta_props_decode(&o, NULL, &prop, 1);
		CHECK(r == LZMA_OK && o != NULL, "props decode succeeds");
		lzma_options_delta *od = o;
		CHECK(od->type == LZMA_DELTA_TYPE_BYTE && od->dist == opt.dist, "props round trip");
		lzma_free(o, NULL);
		WITNESS("valid options");
	}
	void *o2 = NULL;
	size_t sz = nd_size();
	ASSUME(sz != 1 && sz <= 4);
	uint8_t p2[4] = {0};
	CHECK(lzma_delta_props_decode(&o2, NULL, p2, sz) == LZMA_OPTIONS_ERROR && o2 == NULL,
			"property size other than 1 is refused and nothing is allocated");
}

/* init resets the state: re-initialising a used coder gives zero history (a Delta coder
 * reused for the next Block/Stream must not remember the previous one) */
void harness_delta_reinit(void)
{
	lzma_next_coder next = LZMA_NEXT_CODER_INIT;
	lzma_options_delta opt = { .type = LZMA_DELTA_TYPE_BYTE, .dist = nd_u32() };
	ASSUME(opt.dist >= 1 && opt.dist <= 256);
	lzma_filter_info fi[2];
	fi[0].id = LZMA_FILTER_DELTA; fi[0].init = NULL; fi[0].options = &opt;
	fi[1].id = LZMA_VLI_UNKNOWN; fi[1].init = NULL; fi[1].options = NULL;
	bool enc = nd_bool();
	lzma_ret r = enc ? lzma_delta_encoder_init(&next, NULL, fi)
			: lzma_delta_decoder_init(&next, NULL, fi);
	CHECK(r == LZMA_OK, "first init ok");
	lzma_delta_coder *c = next.coder;
	/* arbitrary use in between: any history content and position */
	c->pos = nd_u8();
	size_t k = nd_size();
	ASSUME(k < LZMA_DELTA_DIST_MAX);
	c->history[k] = nd_u8();
	lzma_options_delta opt2 = { .type = LZMA_DELTA_TYPE_BYTE, .dist = nd_u32() };
	ASSUME(opt2.dist >= 1 && opt2.dist <= 256);
	fi[0].options = &opt2;
	r = enc ? lzma_delta_encoder_init(&next, NULL, fi) : lzma_delta_decoder_init(&next, NULL, fi);
	CHECK(r == LZMA_OK, "re-init ok");
	CHECK(next.coder == c, "coder object reused");
	size_t q = nd_size();
	ASSUME(q < LZMA_DELTA_DIST_MAX);
	CHECK(c->history[q] == 0, "history is all zero after re-initialisation");
	CHECK(c->pos == 0 && c->distance == opt2.dist, "position and distance reset");
	WITNESS("reinit reached");
	next.end(next.coder, NULL);
}
