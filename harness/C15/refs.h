/*
 * refs.h -- independent reference implementations of the BCJ transforms, written from the
 * filter descriptions (instruction formats), structured differently from /repo's code
 * (word-oriented, functional: classify word -> extract address -> add/subtract pc ->
 * re-insert).  They share no code with liblzma.  Used as the oracle that pins "the bytes
 * produced for a given input and offset".
 */
#ifndef C15_REFS_H
#define C15_REFS_H
#include <stdint.h>
#include <stddef.h>
#include <stdbool.h>

static inline uint32_t ref_adj(uint32_t addr, uint32_t pc, bool enc)
{
	return enc ? addr + pc : addr - pc;
}

/* ARM (32-bit, little endian): BL = cond 0xEB in the top byte, 24-bit word offset,
 * pc = address of instruction + 8. */
static size_t ref_arm(uint32_t pos, bool enc, uint8_t *b, size_t n)
{
	size_t words = n / 4;
	for (size_t w = 0; w < words; ++w) {
		uint8_t *p = b + 4 * w;
		uint32_t insn = (uint32_t)p[0] | (uint32_t)p[1] << 8 | (uint32_t)p[2] << 16
				| (uint32_t)p[3] << 24;
		if ((insn >> 24) != 0xEB)
			continue;
		uint32_t byteaddr = (insn & 0x00FFFFFF) * 4;
		uint32_t t = ref_adj(byteaddr, pos + (uint32_t)(4 * w) + 8, enc);
		insn = 0xEB000000u | ((t / 4) & 0x00FFFFFF);
		p[0] = (uint8_t)insn; p[1] = (uint8_t)(insn >> 8);
		p[2] = (uint8_t)(insn >> 16); p[3] = (uint8_t)(insn >> 24);
	}
	return words * 4;
}

/* PowerPC (big endian): "bl" = primary opcode 18, AA=0, LK=1. */
static size_t ref_powerpc(uint32_t pos, bool enc, uint8_t *b, size_t n)
{
	size_t words = n / 4;
	for (size_t w = 0; w < words; ++w) {
		uint8_t *p = b + 4 * w;
		uint32_t insn = (uint32_t)p[0] << 24 | (uint32_t)p[1] << 16 | (uint32_t)p[2] << 8
				| (uint32_t)p[3];
		if ((insn & 0xFC000003u) != 0x48000001u)
			continue;
		uint32_t t = ref_adj(insn & 0x03FFFFFCu, pos + (uint32_t)(4 * w), enc);
		insn = 0x48000001u | (t & 0x03FFFFFCu);
		p[0] = (uint8_t)(insn >> 24); p[1] = (uint8_t)(insn >> 16);
		p[2] = (uint8_t)(insn >> 8); p[3] = (uint8_t)insn;
	}
	return words * 4;
}

/* SPARC (big endian): call = op 01 + 30-bit word displacement; converted only when the
 * displacement's top 8 bits (of 30) are a sign extension (all 0 or all 1), i.e. the word is
 * 0x40 00xxxxxx.. or 0x7F 11xxxxxx..; the result keeps 23 significant bits sign-extended. */
static size_t ref_sparc(uint32_t pos, bool enc, uint8_t *b, size_t n)
{
	size_t words = n / 4;
	for (size_t w = 0; w < words; ++w) {
		uint8_t *p = b + 4 * w;
		uint32_t insn = (uint32_t)p[0] << 24 | (uint32_t)p[1] << 16 | (uint32_t)p[2] << 8
				| (uint32_t)p[3];
		uint32_t top10 = insn >> 22;
		if (top10 != 0x100 && top10 != 0x1FF)
			continue;
		uint32_t t = ref_adj(insn * 4, pos + (uint32_t)(4 * w), enc) / 4;
		uint32_t low22 = t & 0x3FFFFF;
		uint32_t sign = (t >> 22) & 1;
		insn = 0x40000000u | (sign ? 0x3FC00000u : 0) | low22;
		p[0] = (uint8_t)(insn >> 24); p[1] = (uint8_t)(insn >> 16);
		p[2] = (uint8_t)(insn >> 8); p[3] = (uint8_t)insn;
	}
	return words * 4;
}

/* ARM Thumb: BL pair of little-endian halfwords 11110 imm11 / 11111 imm11; pc = addr + 4.
 * Scanning advances by 2, by 4 over a converted pair.  Returns the number of bytes that are
 * final (the position where scanning stopped). */
static size_t ref_armthumb(uint32_t pos, bool enc, uint8_t *b, size_t n)
{
	if (n < 4)
		return 0;
	size_t i = 0;
	while (i + 4 <= n) {
		uint32_t h0 = (uint32_t)b[i] | (uint32_t)b[i + 1] << 8;
		uint32_t h1 = (uint32_t)b[i + 2] | (uint32_t)b[i + 3] << 8;
		if ((h0 & 0xF800) == 0xF000 && (h1 & 0xF800) == 0xF800) {
			uint32_t halfwords = (h0 & 0x7FF) << 11 | (h1 & 0x7FF);
			uint32_t t = ref_adj(halfwords * 2, pos + (uint32_t)i + 4, enc) / 2;
			h0 = 0xF000 | ((t >> 11) & 0x7FF);
			h1 = 0xF800 | (t & 0x7FF);
			b[i] = (uint8_t)h0; b[i + 1] = (uint8_t)(h0 >> 8);
			b[i + 2] = (uint8_t)h1; b[i + 3] = (uint8_t)(h1 >> 8);
			i += 4;
		} else {
			i += 2;
		}
	}
	return i;
}

/* ARM64: BL (op 100101, imm26 words) full range; ADRP (1 immlo 10000 immhi Rd), 21-bit
 * page immediate converted only when within +/-2^17 pages, result truncated to 18 bits and
 * sign-extended to 21. */
static size_t ref_arm64(uint32_t pos, bool enc, uint8_t *b, size_t n)
{
	size_t words = n / 4;
	for (size_t w = 0; w < words; ++w) {
		uint8_t *p = b + 4 * w;
		uint32_t pc = pos + (uint32_t)(4 * w);
		uint32_t insn = (uint32_t)p[0] | (uint32_t)p[1] << 8 | (uint32_t)p[2] << 16
				| (uint32_t)p[3] << 24;
		if ((insn & 0xFC000000u) == 0x94000000u) {
			uint32_t imm26 = insn & 0x03FFFFFF;
			uint32_t t = enc ? imm26 + (pc >> 2) : imm26 - (pc >> 2);
			insn = 0x94000000u | (t & 0x03FFFFFF);
		} else if ((insn & 0x9F000000u) == 0x90000000u) {
			uint32_t immlo = (insn >> 29) & 3;
			uint32_t immhi = (insn >> 5) & 0x7FFFF;
			uint32_t imm21 = immhi << 2 | immlo;
			bool in_range = imm21 < 0x20000 || imm21 >= 0x1E0000;
			if (!in_range)
				continue;
			uint32_t t = (enc ? imm21 + (pc >> 12) : imm21 - (pc >> 12)) & 0x3FFFF;
			if (t & 0x20000)
				t |= 0x1C0000;
			insn = (insn & 0x9F00001Fu) | (t & 3) << 29 | (t >> 2) << 5;
		} else {
			continue;
		}
		p[0] = (uint8_t)insn; p[1] = (uint8_t)(insn >> 8);
		p[2] = (uint8_t)(insn >> 16); p[3] = (uint8_t)(insn >> 24);
	}
	return words * 4;
}

/* IA-64: 128-bit little-endian bundles: 5-bit template, three 41-bit slots.  Slot s is a
 * branch unit for the templates below.  IP-relative branch: opcode (bits 37..40) = 5 and
 * btype (bits 9..11) = 0; imm20b = bits 13..32, sign = bit 36; target = imm21 * 16. */
static size_t ref_ia64(uint32_t pos, bool enc, uint8_t *b, size_t n)
{
	size_t bundles = n / 16;
	for (size_t k = 0; k < bundles; ++k) {
		uint8_t *p = b + 16 * k;
		unsigned __int128 v = 0;
		for (int j = 15; j >= 0; --j)
			v = (v << 8) | p[j];
		unsigned tmpl = (unsigned)(v & 0x1F);
		unsigned slots;
		switch (tmpl) {
		case 0x10: case 0x11: slots = 4; break;          /* MIB */
		case 0x12: case 0x13: slots = 6; break;          /* MBB */
		case 0x16: case 0x17: slots = 7; break;          /* BBB */
		case 0x18: case 0x19: slots = 4; break;          /* MMB */
		case 0x1C: case 0x1D: slots = 4; break;          /* MFB */
		default: slots = 0; break;
		}
		for (unsigned s = 0; s < 3; ++s) {
			if (!((slots >> s) & 1))
				continue;
			unsigned sh = 5 + 41 * s;
			uint64_t slot = (uint64_t)(v >> sh) & ((1ULL << 41) - 1);
			if (((slot >> 37) & 0xF) != 5 || ((slot >> 9) & 7) != 0)
				continue;
			uint32_t imm21 = (uint32_t)((slot >> 13) & 0xFFFFF)
					| (uint32_t)((slot >> 36) & 1) << 20;
			uint32_t t = ref_adj(imm21 * 16, pos + (uint32_t)(16 * k), enc) / 16;
			slot &= ~(((uint64_t)0xFFFFF << 13) | ((uint64_t)1 << 36));
			slot |= (uint64_t)(t & 0xFFFFF) << 13;
			slot |= (uint64_t)((t >> 20) & 1) << 36;
			unsigned __int128 m = (unsigned __int128)((1ULL << 41) - 1) << sh;
			v = (v & ~m) | ((unsigned __int128)slot << sh);
		}
		for (int j = 0; j < 16; ++j)
			p[j] = (uint8_t)(v >> (8 * j));
	}
	return bundles * 16;
}

/* x86: the BCJ x86 transform as published in the LZMA SDK (Bra86.c, "x86_Convert", the
 * 3-bit-state formulation), which is the reference other implementations decode with.
 * state 0 at start. */
static size_t ref_x86(uint32_t ip, bool enc, uint8_t *data, size_t size, uint32_t *state)
{
	static const uint8_t allowed[8] = {1, 1, 1, 0, 1, 0, 0, 0};
	static const uint8_t bitnum[8] = {0, 1, 2, 2, 3, 3, 3, 3};
	size_t pos = 0, prevPosT;
	uint32_t prevMask = *state & 7;
	if (size < 5)
		return 0;
	ip += 5;
	prevPosT = (size_t)0 - 1;
	for (;;) {
		size_t limit = size - 4;
		while (pos < limit && (data[pos] & 0xFE) != 0xE8)
			++pos;
		if (pos >= limit)
			break;
		uint8_t *p = data + pos;
		prevPosT = pos - prevPosT;
		if (prevPosT > 3) {
			prevMask = 0;
		} else {
			prevMask = (prevMask << ((int)prevPosT - 1)) & 7;
			if (prevMask != 0) {
				uint8_t bb = p[4 - bitnum[prevMask]];
				if (!allowed[prevMask] || bb == 0 || bb == 0xFF) {
					prevPosT = pos;
					prevMask = ((prevMask << 1) & 7) | 1;
					++pos;
					continue;
				}
			}
		}
		prevPosT = pos;
		if (p[4] == 0 || p[4] == 0xFF) {
			uint32_t src = (uint32_t)p[4] << 24 | (uint32_t)p[3] << 16
					| (uint32_t)p[2] << 8 | (uint32_t)p[1];
			uint32_t dest;
			for (;;) {
				if (enc)
					dest = (ip + (uint32_t)pos) + src;
				else
					dest = src - (ip + (uint32_t)pos);
				if (prevMask == 0)
					break;
				int index = bitnum[prevMask] * 8;
				uint8_t bb = (uint8_t)(dest >> (24 - index));
				if (!(bb == 0 || bb == 0xFF))
					break;
				src = dest ^ (((uint32_t)1 << (32 - index)) - 1);
			}
			p[4] = (uint8_t)(~(((dest >> 24) & 1) - 1));
			p[3] = (uint8_t)(dest >> 16);
			p[2] = (uint8_t)(dest >> 8);
			p[1] = (uint8_t)dest;
			pos += 5;
		} else {
			prevMask = ((prevMask << 1) & 7) | 1;
			++pos;
		}
	}
	prevPosT = pos - prevPosT;
	*state = (prevPosT > 3) ? 0 : ((prevMask << ((int)prevPosT - 1)) & 7);
	return pos;
}

#endif
