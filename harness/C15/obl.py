# C15 -- BCJ and delta filters: exact inverses, size preserving, pinned transform.
S = "src/liblzma/"
NAT = [S + "simple/simple_coder.c", S + "common/common.c"]

FILTERS = [
    # name, source, enc fn, dec fn, align, ref fn, (quick N, thorough N), unwind extra
    ("arm", "arm.c", "arm_code", "arm_code", 4, "ref_arm", (8, 16)),
    ("armthumb", "armthumb.c", "armthumb_code", "armthumb_code", 2, "ref_armthumb", (8, 14)),
    ("arm64", "arm64.c", "arm64_code", "arm64_code", 4, "ref_arm64", (8, 16)),
    ("powerpc", "powerpc.c", "powerpc_code", "powerpc_code", 4, "ref_powerpc", (8, 16)),
    ("sparc", "sparc.c", "sparc_code", "sparc_code", 4, "ref_sparc", (8, 16)),
    ("ia64", "ia64.c", "ia64_code", "ia64_code", 16, "ref_ia64", (16, 32)),
    ("x86", "x86.c", "x86_code", "x86_code", 1, "ref_x86", (7, 10)),
    ("riscv", "riscv.c", "riscv_encode", "riscv_decode", 2, None, (12, 20)),
]

OBLIGATIONS = []
for (name, src, enc, dec, align, ref, (nq, nt)) in FILTERS:
    defs = ['FSRC="%s"' % src, "FENC=" + enc, "FDEC=" + dec, "FALIGN=%d" % align]
    if name == "x86":
        defs.append("IS_X86")
    if ref:
        defs.append("FREF=" + ref)
    common = dict(src="bcj.c", defs=defs, qdefs=["NMAX=%d" % nq], tdefs=["NMAX=%d" % nt],
                  qunwind=nq + 2, tunwind=nt + 2, native_units=NAT,
                  functions=[enc] + ([dec] if dec != enc else []),
                  timeout_q=280, timeout_t=1800, flags=["--object-bits", "10"])
    OBLIGATIONS.append(Obligation(
        name="bcj_%s_roundtrip" % name, func="harness_roundtrip",
        desc="%s: decode(encode(buf))==buf, equal processed counts, length unchanged, no "
             "out-of-buffer access, for every buffer and every aligned 32-bit position%s"
             % (name, " (from the initial state; carried state: see bcj_x86_split)" if name == "x86" else ""),
        bounds_q="buffer length n <= %d bytes (symbolic), now_pos all 32-bit aligned values" % nq,
        bounds_t="buffer length n <= %d bytes (symbolic), now_pos all 32-bit aligned values" % nt,
        outside="buffers longer than the bound (the transforms are position-local: each "
                "instruction unit is handled independently of earlier ones except x86's "
                "prev_mask/prev_pos, which is covered by making that state symbolic)",
        **common))
    if ref:
        OBLIGATIONS.append(Obligation(
            name="bcj_%s_reference" % name, func="harness_reference",
            desc="%s: output bytes and processed count equal an independent reference "
                 "implementation of the transform (harness/C15/refs.h), both directions" % name,
            bounds_q="n <= %d bytes, all aligned positions, both directions%s" % (
                nq, "; from the initial x86 state" if name == "x86" else ""),
            bounds_t="n <= %d bytes, all aligned positions, both directions" % nt,
            stubs=["oracle: refs.h " + ref + " (independent, from the instruction formats / LZMA SDK Bra86.c)"],
            **common))

for (name, src, enc, dec, align, ref, (nq, nt)) in FILTERS:
    defs = ['FSRC="%s"' % src, "FENC=" + enc, "FDEC=" + dec, "FALIGN=%d" % align]
    if name == "x86":
        defs.append("IS_X86")
    kq = {"x86": 7, "ia64": 18, "riscv": 12}.get(name, 8)
    kt = {"x86": 8, "ia64": 34, "riscv": 18}.get(name, 14)
    OBLIGATIONS.append(Obligation(
        name="bcj_%s_kernel_split" % name, src="bcj.c", func="harness_kernel_split", defs=defs,
        qdefs=["NMAX=%d" % kq], tdefs=["NMAX=%d" % kt], qunwind=kq + 2, tunwind=kt + 2, native_units=NAT,
        flags=["--object-bits", "12" if name == "riscv" else "10"], timeout_q=280, timeout_t=3000, functions=[enc] + ([dec] if dec != enc else []),
        desc="%s kernel called twice (prefix of symbolic length k, then the unprocessed rest with advanced position and carried state, as simple_code() does) == called once on the whole buffer: same bytes, same total processed count%s" % (name, "" if name == "x86" else ""),
        bounds_q="n <= %d bytes, symbolic cut k, every aligned position, both directions" % kq,
        bounds_t="n <= %d bytes" % kt))

# streaming coder with arbitrary slicing vs one-shot (also serves C06)
STREAM = [  # name, quick (N, calls), thorough (N, calls)
    ("x86", (6, 2), (6, 2)), ("arm", (5, 2), (12, 3)), ("armthumb", (6, 3), (10, 3)),
    ("arm64", (8, 3), (12, 3)), ("powerpc", (8, 3), (12, 3)), ("sparc", (8, 3), (12, 3)),
    ("ia64", (17, 2), (17, 2)), ("riscv", (10, 2), (10, 2)),
]
FD = {f[0]: f for f in FILTERS}
for (name, (nq, cq), (nt, ct)) in STREAM:
  for direction in ("enc", "dec"):
      (_, src, enc, dec, align, ref, _) = FD[name]
      defs = ['FSRC="%s"' % src, "FENC=" + enc, "FDEC=" + dec, "FALIGN=%d" % align,
              "FINIT_ENC=lzma_simple_%s_encoder_init" % name,
              "FINIT_DEC=lzma_simple_%s_decoder_init" % name,
              "DIR_ENC=%d" % (1 if direction == "enc" else 0), "VLOOP_MEM"]
      if name == "x86":
          defs.append("IS_X86")
      OBLIGATIONS.append(Obligation(
          name="bcj_%s_split_%s" % (name, direction), src="stream.c", func="harness_split", defs=defs,
          qdefs=["NMAX=%d" % nq, "CALLS=%d" % cq, "DRAIN=2"], tdefs=["NMAX=%d" % nt, "CALLS=%d" % ct],
          qunwind=nq + 2, tunwind=nt + 3, units=[S + "common/common.c"],
          flags=["--object-bits", "12" if name == "riscv" else "10"], timeout_q=280, mem_gb=16 if name == "ia64" else 8,
          fp_restrict=["copy_or_code.function_pointer_call.1/passthru_code"],
          tiers=("quick", "thorough") if name in ("arm",) else ("thorough",), timeout_t=3600,
          functions=["simple_code", "call_filter", "copy_or_code", "lzma_simple_coder_init",
                     enc, dec, "lzma_bufcpy", "lzma_next_filter_init", "lzma_alloc"],
          stubs=["next coder in the decoder direction = pass-through that returns STREAM_END "
                 "when all input was given with LZMA_FINISH"],
          desc="%s through simple_code(): for every input, direction, start offset and every "
               "slicing of input and output into calls (empty calls allowed), the concatenated "
               "output equals the one-shot filter applied to the whole buffer, in_pos/out_pos "
               "stay inside the slices, the stream ends, length is preserved" % name,
          bounds_q="n <= %d bytes; %d sliced calls (symbolic input/output cut points) + up to 3 draining FINISH calls" % (nq, cq),
          bounds_t="n <= %d bytes; %d sliced calls + up to 3 draining FINISH calls" % (nt, ct)))
      if align > 1:
          OBLIGATIONS.append(Obligation(
              name="bcj_%s_align_%s" % (name, direction), src="stream.c", func="harness_align", defs=defs,
              unwind=4, units=[S + "common/common.c"], flags=["--object-bits", "10"],
              functions=["lzma_simple_coder_init"],
              desc="%s: init returns OPTIONS_ERROR exactly for start_offset not a multiple of %d" % (name, align),
              bounds_q="all 32-bit start_offset values, both directions"))

DELTA_FUNCS = ["copy_and_encode", "encode_in_place", "decode_buffer", "lzma_delta_coder_init",
               "lzma_delta_coder_memusage", "lzma_delta_props_encode", "lzma_delta_props_decode"]
OBLIGATIONS += [
    Obligation(name="delta_reference", src="delta.c", func="harness_delta_ref",
               qdefs=["NMAX=3"], tdefs=["NMAX=8"], qunwind=5, tunwind=10,
               units=[S + "common/common.c"], functions=DELTA_FUNCS[:3], replay=False,
               desc="delta, from ANY coder state (arbitrary 256-byte history, position, distance 1..256): copying encoder output == in[i]-in[i-dist] (reference formula), history afterwards holds the original bytes",
               bounds_q="n <= 3 bytes, distance 1..256 symbolic, history fully symbolic",
               bounds_t="n <= 8 bytes, distance 1..256 symbolic, history fully symbolic"),
    Obligation(name="delta_inplace", src="delta.c", func="harness_delta_inplace",
               qdefs=["NMAX=3"], tdefs=["NMAX=8"], qunwind=5, tunwind=10,
               units=[S + "common/common.c"], functions=DELTA_FUNCS[:3], replay=False,
               desc="delta, from ANY coder state (arbitrary 256-byte history, position, distance 1..256): encode_in_place == copy_and_encode (bytes, history, position)",
               bounds_q="n <= 3 bytes, distance 1..256 symbolic, history fully symbolic",
               bounds_t="n <= 8 bytes, distance 1..256 symbolic, history fully symbolic"),
    Obligation(name="delta_roundtrip", src="delta.c", func="harness_delta_roundtrip",
               qdefs=["NMAX=3"], tdefs=["NMAX=8"], qunwind=5, tunwind=10,
               units=[S + "common/common.c"], functions=DELTA_FUNCS[:3], replay=False,
               desc="delta, from ANY coder state (arbitrary 256-byte history, position, distance 1..256): decode_buffer inverts copy_and_encode from the same state; both states stay equal",
               bounds_q="n <= 3 bytes, distance 1..256 symbolic, history fully symbolic",
               bounds_t="n <= 8 bytes, distance 1..256 symbolic, history fully symbolic"),
    Obligation(name="delta_props", src="delta.c", func="harness_delta_props", unwind=6,
               units=[S + "common/common.c"], functions=DELTA_FUNCS[4:],
               desc="delta: options accepted iff type==BYTE && 1<=dist<=256; property byte round trip; "
                    "wrong property size refused", bounds_q="all 32-bit type/dist values"),
    Obligation(name="delta_reinit", src="delta.c", func="harness_delta_reinit", unwind=3,
               units=[S + "common/common.c"], functions=["lzma_delta_coder_init", "lzma_delta_encoder_init", "lzma_delta_decoder_init"],
               flags=["--object-bits", "10"],
               desc="delta: re-initialising a used coder object (next Block / Stream / reused lzma_stream) "
                    "zeroes the whole history and resets position and distance",
               bounds_q="arbitrary prior history cell/position, arbitrary old and new distance"),
]
