/*
 * C02 / C05 / C13: block_util.c -- the arithmetic that turns a Block's header size, Compressed
 * Size and Check type into the Unpadded Size stored in the Index (and back), for ALL field values,
 * against the definitions in the .xz specification computed in 128-bit arithmetic.
 */
#include "vcommon.h"
#include "../../spec/xzspec.h"
#include "lzma.h"

typedef unsigned __int128 u128;
#define VLI_MAX_ ((uint64_t)INT64_MAX)
#define UNPADDED_MAX_ (VLI_MAX_ & ~(uint64_t)3)

static void mkblock(lzma_block *b)
{
	b->version = nd_u32(); b->header_size = nd_u32(); b->check = nd_u32();
	b->compressed_size = nd_u64(); b->uncompressed_size = nd_u64();
	b->filters = NULL; b->ignore_check = nd_bool();
}
static bool desc_valid(const lzma_block *b)
{
	return b->version <= 1 && b->header_size >= 8 && b->header_size <= 1024 && (b->header_size & 3) == 0
		&& (b->compressed_size == LZMA_VLI_UNKNOWN || (b->compressed_size >= 1 && b->compressed_size <= VLI_MAX_))
		&& (unsigned)b->check <= 15;
}

void harness_unpadded_size(void)
{
	lzma_block b; mkblock(&b);
	const lzma_vli r = lzma_block_unpadded_size(&b);
	const lzma_vli t = lzma_block_total_size(&b);
	if (!desc_valid(&b)) {
		CHECK(r == 0 && t == 0, "invalid description: 0");
		WITNESS("invalid description");
	} else if (b.compressed_size == LZMA_VLI_UNKNOWN) {
		CHECK(r == LZMA_VLI_UNKNOWN && t == LZMA_VLI_UNKNOWN, "unknown Compressed Size: unknown");
	} else {
		const u128 sum = (u128)b.compressed_size + b.header_size + spec_check_size(b.check);
		if (sum > UNPADDED_MAX_) {
			CHECK(r == 0 && t == 0, "sum beyond the largest Unpadded Size: 0");
			WITNESS("overflow edge");
		} else {
			CHECK(r == (lzma_vli)sum, "Unpadded Size = Block Header + Compressed Size + Check (spec 3, 4.3)");
			CHECK(r >= 5, "at least the minimum");
			CHECK(t == (lzma_vli)((sum + 3) / 4 * 4) && t >= r && t - r < 4 && (t & 3) == 0, "Total Size = Unpadded Size rounded up to four");
			WITNESS("valid");
		}
	}
}

void harness_compressed_size(void)
{
	lzma_block b; mkblock(&b);
	const lzma_block b0 = b;
	const lzma_vli unpadded = nd_u64();
	const lzma_ret ret = lzma_block_compressed_size(&b, unpadded);
	const u128 container = (u128)b0.header_size + spec_check_size(b0.check);
	const bool base_ok = desc_valid(&b0) && (b0.compressed_size == LZMA_VLI_UNKNOWN
			|| (u128)b0.compressed_size + container <= UNPADDED_MAX_);
	if (!base_ok) {
		CHECK(ret == LZMA_PROG_ERROR && b.compressed_size == b0.compressed_size, "invalid description: PROG_ERROR, nothing changed");
	} else if ((u128)unpadded <= container) {
		CHECK(ret == LZMA_DATA_ERROR && b.compressed_size == b0.compressed_size, "Unpadded Size not larger than header + Check: DATA_ERROR");
		WITNESS("too small");
	} else {
		const uint64_t c = (uint64_t)((u128)unpadded - container);
		if (b0.compressed_size != LZMA_VLI_UNKNOWN && b0.compressed_size != c) {
			CHECK(ret == LZMA_DATA_ERROR && b.compressed_size == b0.compressed_size, "contradicts the Compressed Size of the Block Header: DATA_ERROR");
			WITNESS("mismatch");
		} else {
			CHECK(ret == LZMA_OK && b.compressed_size == c, "Compressed Size = Unpadded Size - header - Check");
			if (unpadded <= UNPADDED_MAX_)
				CHECK(lzma_block_unpadded_size(&b) == unpadded, "and lzma_block_unpadded_size() maps it back");
			WITNESS("derived");
		}
	}
	CHECK(b.header_size == b0.header_size && b.check == b0.check && b.uncompressed_size == b0.uncompressed_size, "other fields untouched");
}
