# C02 -- encoder output is a valid instance of the formats; metadata truthful; bounds
S = "src/liblzma/"
ENC_UNITS = [S + x for x in ["common/stream_flags_encoder.c", "common/stream_flags_common.c", "common/block_header_encoder.c",
    "common/filter_flags_encoder.c", "common/filter_encoder.c", "common/filter_common.c", "common/vli_encoder.c",
    "common/vli_size.c", "common/block_util.c", "check/check.c", "common/common.c", "lzma/lzma2_encoder.c",
    "lzma/lzma_encoder.c", "lzma/fastpos_table.c", "simple/simple_encoder.c", "delta/delta_encoder.c",
    "delta/delta_common.c", "common/block_buffer_encoder.c", "common/stream_buffer_encoder.c"]]
CRC = [S + "check/crc32_fast.c"]
FL = ["--object-bits", "10"]
OBLIGATIONS = [
    Obligation(name="stream_flags_encode_vs_spec", src="enc.c", func="harness_stream_flags_encode", unwind=13, units=ENC_UNITS + CRC, flags=FL,
        functions=["lzma_stream_header_encode", "lzma_stream_footer_encode", "stream_flags_encode", "lzma_crc32"],
        desc="for every lzma_stream_flags value: header/footer encode exactly for valid options, and the bytes are valid per the spec parser (independent bitwise CRC32) carrying the true check id and Backward Size; footer flags equal header flags",
        bounds_q="all field values"),
    Obligation(name="vli_encode_vs_spec", src="enc.c", func="harness_vli", unwind=11, units=ENC_UNITS, flags=FL,
        functions=["lzma_vli_encode", "lzma_vli_size"], desc="every 64-bit value: encodable iff <= 2^63-1; bytes written == lzma_vli_size == minimal length; spec decoder reads the value back; too-small buffer refused",
        bounds_q="all 64-bit values"),
    Obligation(name="vli_encode_resumable", src="enc.c", func="harness_vli_resume", unwind=11, units=ENC_UNITS, flags=FL,
        functions=["lzma_vli_encode"], desc="resumable VLI encoding with any output split produces the same bytes as the single call",
        bounds_q="all 63-bit values, all split points"),
    Obligation(name="lzma2_dict_size_byte", src="enc.c", func="harness_lzma2_props", unwind=4, units=ENC_UNITS, flags=FL,
        functions=["lzma_lzma2_props_encode", "get_dist_slot"], desc="for every 32-bit dict_size the LZMA2 properties byte decodes (spec formula) to the smallest representable size >= max(dict_size, 4096): the declared dictionary is never smaller than the one the encoder uses",
        bounds_q="all 2^32 dictionary sizes"),
    Obligation(name="lzma1_props_bytes", src="enc.c", func="harness_lzma1_props", unwind=4, units=ENC_UNITS, flags=FL,
        functions=["lzma_lzma_props_encode", "lzma_lzma_lclppb_encode"], desc="LZMA1 properties: encodable exactly for lc+lp<=4, pb<=4; byte = (pb*5+lp)*9+lc; dictionary size little endian",
        bounds_q="all lc/lp/pb/dict_size values"),
    Obligation(name="bound_functions", src="enc.c", func="harness_bounds", unwind=4, units=ENC_UNITS, flags=FL,
        functions=["lzma_block_buffer_bound64", "lzma_stream_buffer_bound", "lzma_block_buffer_bound"],
        desc="lzma_block_buffer_bound64(u) for every 64-bit u is 0 or >= worst-case uncompressed-chunk LZMA2 size + header + check, multiple of 4, valid VLI; lzma_stream_buffer_bound >= block bound + Stream Header/Footer/Index",
        bounds_q="all 64-bit sizes"),
]
for hs, tiers in [(16, ("quick", "thorough")), (32, ("thorough",))]:
    OBLIGATIONS.append(Obligation(name="block_header_encode_vs_spec_%d" % hs, src="enc.c", func="harness_block_header_encode",
        defs=["HSMAX=%d" % hs, "GHOST_CRC", "lzma_crc32=vstub_crc32"], unwind=hs + 2, units=ENC_UNITS, flags=FL, tiers=tiers,
        unwindset=[("encoder_find", "", 16)], timeout_q=280, timeout_t=1800,
        functions=["lzma_block_header_size", "lzma_block_header_encode", "lzma_filter_flags_size", "lzma_filter_flags_encode", "lzma_properties_size", "lzma_properties_encode", "lzma_vli_encode", "lzma_lzma2_props_encode", "lzma_simple_props_encode", "lzma_delta_props_encode"],
        stubs=["lzma_crc32 abstracted to one arbitrary value seen by encoder and spec parser (real CRC32: C14 and stream_flags obligation)"],
        desc="every lzma_block accepted by lzma_block_header_size (version 0/1, sizes known/unknown over the VLI range, chains [LZMA2] / [delta|BCJ(8 ids, with/without start offset), LZMA2] with symbolic options): the encoded header is valid per the independent spec parser and its fields equal the struct's (sizes, filter ids, delta distance, BCJ offset, LZMA2 dictionary size >= the encoder's)",
        bounds_q="headers up to %d bytes, 1-2 filters" % hs))
IDXU = [S + x for x in ["common/common.c", "common/vli_encoder.c", "common/vli_size.c"]]
OBLIGATIONS += [
    Obligation(name="index_encode_sliced", src="idxenc.c", func="harness_index_encode_sliced", qdefs=["KREC=1"], tdefs=["KREC=1"], tiers=("thorough",), mem_gb=16,
        unwind=48, units=IDXU, flags=FL, timeout_q=280, timeout_t=1800, unwindset=[("index_encode", r"while \(\*out_pos < out_size\)", (14, 22)), ("index_encode", r"while \(\+\+coder->pos < 4\)", 5), ("lzma_vli_encode", "", 10), ("vstub_crc32", "", (28, 46))],
        functions=["index_encode", "lzma_index_encoder_init", "lzma_vli_encode"],
        stubs=["lzma_index accessors used by the encoder (block_count, iter_init, iter_next, padding_size, size) = K-record model with symbolic sizes (index.c is C13's subject)",
               "lzma_crc32 = chaining hash (h(a||b,c)==h(b,h(a,c))) so that 'CRC over exactly the preceding bytes, once' is a structural check"],
        desc="the streaming Index encoder with the output cut at three symbolic positions: the concatenated bytes are a valid Index per the spec parser (indicator, minimal count, truthful records, 0-3 zero padding bytes, CRC32 over exactly the preceding bytes), their number equals lzma_index_size(), independent of the slicing",
        bounds_q="0-1 records (quick) / 0-2 (thorough), sizes over the whole VLI range, 4 calls"),
    Obligation(name="index_buffer_encode", src="idxenc.c", func="harness_index_buffer_encode", qdefs=["KREC=1"], tdefs=["KREC=1"], tiers=("thorough",), mem_gb=16,
        unwind=70, units=IDXU, flags=FL, timeout_q=280, timeout_t=1800, unwindset=[("index_encode", r"while \(\*out_pos < out_size\)", (14, 22)), ("index_encode", r"while \(\+\+coder->pos < 4\)", 5), ("lzma_vli_encode", "", 10), ("vstub_crc32", "", (28, 46))],
        functions=["lzma_index_buffer_encode", "index_encode"], stubs=["same index model and chaining-hash CRC as index_encode_sliced"],
        desc="single-call Index encoding: BUF_ERROR with nothing written when space < lzma_index_size(), otherwise exactly that many bytes forming a valid Index",
        bounds_q="0-1 records (quick) / 0-2 (thorough)"),
]
OBLIGATIONS += [
    Obligation(name="index_crc_tail_sliced", src="idxenc.c", func="harness_index_crc_tail", defs=["KREC=1"], unwind=10, units=IDXU, flags=FL,
        functions=["index_encode"], stubs=["lzma_crc32 = additive chaining hash; index accessors = model (not reached in these states)"],
        desc="Index encoder from ANY running-CRC state at the Index Padding, with the output cut at every possible point (inside the padding, inside the CRC32 field): the CRC32 field equals the CRC of all preceding bytes with each byte counted exactly once",
        bounds_q="all running CRC values, 0-3 padding bytes, every cut point"),
]
# Block encoder body: payload pass-through, Block Padding, Check field, truthful sizes (also C12: sync flush)
OBLIGATIONS.append(Obligation(
    name="block_encode_body", src="blockenc.c", func="harness_block_encode",
    units=[S + "common/common.c", S + "check/check.c"],
    defs=["VLOOP_MEM", "VLOOP_MEM_ONECHECK"], qdefs=["NIN=4", "PMAX=6", "CHKMAX=8", "CALLS=2"], tdefs=["NIN=5", "PMAX=7", "CHKMAX=32", "CALLS=3"],
    hdefs=["lzma_raw_encoder_init=vstub_raw_encoder_init", "lzma_check_init=vstub_check_init",
           "lzma_check_update=vstub_check_update", "lzma_check_finish=vstub_check_finish"],
    qunwind=19, tunwind=45, timeout_q=400, timeout_t=3000, mem_gb=12,
    fp_restrict=["harness_block_encode.function_pointer_call.1/block_encode",
                 "block_encode.function_pointer_call.1/raw_code"],
    functions=["lzma_block_encoder_init", "block_encode", "lzma_check_size", "lzma_check_is_supported", "lzma_bufcpy"],
    stubs=["filter chain (lzma_raw_encoder_init / next.code): consumes and produces arbitrary amounts per call; STREAM_END only for SYNC_FLUSH/FINISH with all input consumed; payload bytes are recognisable markers",
           "lzma_check_init/update/finish: the Check value of the input is an arbitrary byte string EXP; the harness verifies that exactly the consumed input bytes are fed, in order"],
    desc="Block encoder (lzma_block_encoder_init + block_encode): for every input length, every spreading of the "
         "filter chain's output over calls, every output slicing and supported Check: the bytes written are "
         "payload + zero padding to a multiple of four + Check value, nothing else; compressed_size, "
         "uncompressed_size and raw_check handed back in lzma_block are the true ones; exactly the input bytes "
         "went into the Check; a completed SYNC_FLUSH passes through without ending the Block; unsupported / "
         "invalid Check IDs and unknown versions are refused at init",
    bounds_q="input <= 4 bytes, payload <= 6 bytes, Checks with fields <= 8 bytes (None/CRC32/CRC64), 2 symbolic calls (RUN / SYNC_FLUSH / FINISH) + final FINISH call",
    bounds_t="input <= 5, payload <= 7, Check fields <= 32 bytes (adds SHA-256), 3 symbolic calls",
    outside="the filter chain itself; payloads beyond the bound (accounting is by counters); COMPRESSED_SIZE_MAX overflow branch (needs 2^63 bytes of output)"))
BU = [S + "common/block_util.c", S + "check/check.c"]
OBLIGATIONS += [
    Obligation(name="block_unpadded_size_arith", src="blockutil.c", func="harness_unpadded_size", unwind=2, units=BU,
        functions=["lzma_block_unpadded_size", "lzma_block_total_size", "lzma_check_size"],
        desc="lzma_block_unpadded_size / lzma_block_total_size for ALL field values: 0 for invalid descriptions and sums beyond the largest Unpadded Size, UNKNOWN for unknown Compressed Size, otherwise header + Compressed Size + Check size (128-bit reference) resp. that rounded up to four",
        bounds_q="all 32/64-bit field values"),
    Obligation(name="block_compressed_size_arith", src="blockutil.c", func="harness_compressed_size", unwind=2, units=BU,
        functions=["lzma_block_compressed_size", "lzma_block_unpadded_size", "lzma_check_size"],
        desc="lzma_block_compressed_size for ALL field values and Unpadded Sizes: PROG_ERROR for invalid descriptions, DATA_ERROR when the Unpadded Size is not larger than header + Check or contradicts a known Compressed Size, otherwise Compressed Size = Unpadded Size - header - Check and lzma_block_unpadded_size maps it back",
        bounds_q="all 32/64-bit field values"),
]
