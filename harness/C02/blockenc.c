/*
 * C02 / C12: the Block encoder (block_encoder.c lzma_block_encoder_init + block_encode): for
 * every input length, every way the filter chain spreads its output over calls, every slicing
 * of the output space and every supported Check type, what it writes is
 *     <filter chain output, P bytes> <(4 - P%4)%4 zero bytes> <Check value of the input>
 * and the sizes / Check it hands back in lzma_block (from which the Block Header size fields
 * and the Index Record are made) are the true ones: compressed_size == P, uncompressed_size ==
 * bytes consumed, raw_check == the Check value; exactly the consumed input bytes, in order, went
 * into the Check.  With LZMA_SYNC_FLUSH the filter chain's STREAM_END is passed through and the
 * Block is not finished.
 *
 * Stubs: the filter chain (lzma_raw_encoder_init / next.code) consumes and produces arbitrary
 * amounts per call, and reports STREAM_END only for SYNC_FLUSH/FINISH with all input consumed;
 * lzma_check_*: the Check value of the input is an arbitrary byte string EXP.
 */
#include "vcommon.h"
#include "block_encoder.c"

#ifndef NIN
#define NIN 4
#endif
#ifndef PMAX
#define PMAX 6
#endif
#ifndef CHKMAX
#define CHKMAX 8
#endif
#ifndef CALLS
#define CALLS 3
#endif
#define NOUT (PMAX + 3 + CHKMAX + 1)

static size_t g_P;                 /* bytes the filter chain has produced */
static bool g_final;               /* harness: this is the last call, the chain must finish */
static size_t g_fed; static bool g_fed_ok = true; static const uint8_t *g_inbase;
static uint8_t g_exp[CHKMAX];
static bool g_finished;

lzma_ret vstub_raw_encoder_init(lzma_next_coder *next, const lzma_allocator *a, const lzma_filter *f)
{ (void)a; (void)f; (void)next; return LZMA_OK; }

static lzma_ret raw_code(void *c, const lzma_allocator *a, const uint8_t *restrict in,
		size_t *restrict in_pos, size_t in_size, uint8_t *restrict out,
		size_t *restrict out_pos, size_t out_size, lzma_action action)
{
	(void)c; (void)a; (void)in;
	CHECK(*in_pos <= in_size && *out_pos <= out_size, "filter chain called with positions inside the buffers");
	size_t di = nd_size(), dout = nd_size();
	ASSUME(di <= in_size - *in_pos);
	ASSUME(dout <= out_size - *out_pos && dout <= PMAX - g_P);
	if (g_final) ASSUME(di == in_size - *in_pos);
	for (size_t i = 0; i < PMAX; ++i)
		if (i < dout) out[*out_pos + i] = 0xC0 | (uint8_t)(g_P + i);      /* recognisable payload bytes */
	*in_pos += di; *out_pos += dout; g_P += dout;
	bool done = nd_bool();
	if (g_final) ASSUME(done);
	if (action != LZMA_RUN && *in_pos == in_size && done) {
		if (action == LZMA_FINISH) g_finished = true;
		return LZMA_STREAM_END;
	}
	return LZMA_OK;
}

void vstub_check_init(lzma_check_state *check, lzma_check type) { (void)check; (void)type; }
void vstub_check_update(lzma_check_state *check, lzma_check type, const uint8_t *buf, size_t size)
{
	(void)check; (void)type;
	if (buf != g_inbase + g_fed) g_fed_ok = false;
	g_fed += size;
}
void vstub_check_finish(lzma_check_state *check, lzma_check type)
{
	(void)type;
	for (unsigned i = 0; i < CHKMAX; ++i) check->buffer.u8[i] = g_exp[i];
}

void harness_block_encode(void)
{
	uint8_t in[NIN + 1], out[NOUT];
	nd_bytes(in, NIN);
	size_t n = nd_size(); ASSUME(n <= NIN);
	for (unsigned i = 0; i < CHKMAX; ++i) g_exp[i] = nd_u8();
	g_inbase = in;

	static lzma_block b;
	static lzma_filter filters[LZMA_FILTERS_MAX + 1];
	b.version = nd_u32();
	b.check = nd_u32();
	b.filters = filters;
	b.compressed_size = nd_u64(); b.uncompressed_size = nd_u64();     /* ignored on input */
	lzma_next_coder next = LZMA_NEXT_CODER_INIT;
	lzma_ret r = lzma_block_encoder_init(&next, NULL, &b);
	if (b.version > 1) { CHECK(r == LZMA_OPTIONS_ERROR, "unknown lzma_block version refused"); return; }
	if ((unsigned)b.check > LZMA_CHECK_ID_MAX) { CHECK(r == LZMA_PROG_ERROR, "invalid Check ID refused"); return; }
	if (!lzma_check_is_supported(b.check)) { CHECK(r == LZMA_UNSUPPORTED_CHECK, "a Check this build cannot compute is refused (no Block without a truthful Check is ever started)"); WITNESS("unsupported check refused"); return; }
	CHECK(r == LZMA_OK, "init accepts supported Checks");
	const size_t csz = lzma_check_size(b.check);
	ASSUME(csz <= CHKMAX);
	lzma_block_coder *coder = next.coder;
	coder->next.code = &raw_code;

	size_t in_pos = 0, out_pos = 0;
	lzma_ret ret = LZMA_OK;
	bool flushed = false;
	for (unsigned k = 0; k < CALLS + 1; ++k) if (ret == LZMA_OK) {
		size_t in_end = n, out_end = NOUT;
		lzma_action act = LZMA_FINISH;
		if (k < CALLS) {
			in_end = nd_size(); out_end = nd_size();
			ASSUME(in_end >= in_pos && in_end <= n);
			ASSUME(out_end >= out_pos && out_end <= NOUT);
			act = nd_bool() ? LZMA_RUN : (nd_bool() ? LZMA_SYNC_FLUSH : LZMA_FINISH);
			if (act == LZMA_FINISH) ASSUME(in_end == n);
		} else {
			g_final = true;
		}
		const size_t ip0 = in_pos, op0 = out_pos;
		ret = next.code(next.coder, NULL, in, &in_pos, in_end, out, &out_pos, out_end, act);
		CHECK(in_pos >= ip0 && in_pos <= in_end, "input position stays inside the slice");
		CHECK(out_pos >= op0 && out_pos <= out_end, "output position stays inside the slice");
		CHECK(ret == LZMA_OK || ret == LZMA_STREAM_END, "only OK or STREAM_END");
		if (act == LZMA_SYNC_FLUSH && ret == LZMA_STREAM_END) {
			CHECK(coder->sequence == SEQ_CODE && !g_finished, "a completed sync flush does not end the Block");
			CHECK(out_pos == g_P, "after a sync flush exactly the filter chain's output has been written (no padding, no Check)");
			flushed = true;
			ret = LZMA_OK;
		}
		if (act == LZMA_FINISH && ret == LZMA_OK)
			ASSUME(k + 1 >= CALLS);     /* liblzma API: once FINISH is used the action may not change (enforced by lzma_code, C11) */
	}
	CHECK(ret == LZMA_STREAM_END, "the Block is finished once all input was given with FINISH and there is output space");
	const size_t pad = (4 - (g_P & 3)) & 3;
	CHECK(in_pos == n, "all input consumed");
	CHECK(out_pos == g_P + pad + csz, "Block body is payload + padding to a multiple of four + Check field, nothing else");
	size_t q = nd_size(); ASSUME(q < NOUT);
	if (q < g_P) CHECK(out[q] == (0xC0 | (uint8_t)q), "filter chain output is passed through unchanged and in order");
	else if (q < g_P + pad) CHECK(out[q] == 0x00, "Block Padding bytes are zero");
	else if (q < g_P + pad + csz) CHECK(out[q] == g_exp[q - g_P - pad], "Check field is the Check value of the input");
	CHECK(b.compressed_size == g_P, "lzma_block.compressed_size handed back is the true payload size (Block Header / Index are built from it)");
	CHECK(b.uncompressed_size == n, "lzma_block.uncompressed_size handed back is the number of input bytes");
	CHECK(g_fed == n && g_fed_ok, "exactly the input bytes, in order, went into the integrity check");
	for (unsigned i = 0; i < CHKMAX; ++i)
		if (i < csz) CHECK(b.raw_check[i] == g_exp[i], "raw_check handed back equals the Check field written");
	if (pad == 3 && csz == 8) WITNESS("three padding bytes and an 8-byte check");
	if (flushed) WITNESS("sync flush before the end");
	if (g_P == 0 && n == 0) WITNESS("empty input");
}
