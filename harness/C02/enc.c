/*
 * C02: encoder-side container fields against the specification-derived parsers of
 * spec/xzspec.h (independent of liblzma's decoders).
 */
#include "vcommon.h"
#include "common.h"
#include "lzma_encoder.h"
#include "lzma2_encoder.h"
#include "block_buffer_encoder.h"

#ifdef GHOST_CRC
static uint32_t ghost_crc; static const uint8_t *ghost_crc_buf; static size_t ghost_crc_len;
uint32_t vstub_crc32(const uint8_t *buf, size_t size, uint32_t crc)
{
	CHECK(buf == ghost_crc_buf && size == ghost_crc_len && crc == 0, "CRC32 is computed over exactly the header minus its CRC field");
	return ghost_crc;
}
#define SPEC_CRC32(p, n) (ghost_crc)
#endif
#include "../../spec/xzspec.h"

/* O-b: Stream Header / Footer */
void harness_stream_flags_encode(void)
{
	lzma_stream_flags sf;
	memset(&sf, 0, sizeof(sf));
	sf.version = nd_u32();
	sf.check = (lzma_check)nd_u32();
	sf.backward_size = nd_u64();
	uint8_t h[12], f[12];
	lzma_ret rh = lzma_stream_header_encode(&sf, h);
	bool ok_flags = sf.version == 0 && (unsigned)sf.check <= 15;
	CHECK((rh == LZMA_OK) == ok_flags, "header encodes exactly for version 0 and a check id 0..15");
	if (rh == LZMA_OK) {
		unsigned c = 99;
		CHECK(spec_stream_header(h, &c) == 0 && c == (unsigned)sf.check, "encoded Stream Header is valid per spec and carries the check id");
		WITNESS("header encoded");
	}
	lzma_ret rf = lzma_stream_footer_encode(&sf, f);
	bool ok_bs = sf.backward_size >= 4 && sf.backward_size <= ((uint64_t)1 << 34) && (sf.backward_size & 3) == 0;
	CHECK((rf == LZMA_OK) == (ok_flags && ok_bs), "footer encodes exactly for valid flags and Backward Size in [4, 2^34], multiple of 4");
	if (rf == LZMA_OK) {
		unsigned c = 99; uint64_t bs = 0;
		CHECK(spec_stream_footer(f, &c, &bs) == 0, "encoded Stream Footer is valid per spec");
		CHECK(c == (unsigned)sf.check && bs == sf.backward_size, "footer stores the true check id and Backward Size");
		CHECK(f[8] == h[6] && f[9] == h[7], "Stream Flags in footer equal those in the header");
		if (sf.backward_size > 0xFFFFFFFFull) WITNESS("backward size above 4 GiB");
	}
}

/* O-c: VLI encode / size / decode agree for all 63-bit values */
void harness_vli(void)
{
	uint64_t v = nd_u64();
	uint8_t out[10];
	size_t pos = 0;
	lzma_ret r = lzma_vli_encode(v, NULL, out, &pos, 9);
	if (v > LZMA_VLI_MAX) { CHECK(r == LZMA_PROG_ERROR, "values above 2^63-1 are not encodable"); CHECK(lzma_vli_size(v) == 0, "size 0 for invalid"); return; }
	CHECK(r == LZMA_OK, "every valid VLI encodes into 9 bytes");
	CHECK(pos == lzma_vli_size(v) && pos == spec_vli_size(v), "bytes written == lzma_vli_size == minimal length per spec");
	uint64_t back = 0;
	CHECK(spec_vli(out, pos, &back) == pos && back == v, "spec decoder reads the same value from exactly these bytes");
	/* too-small buffer: refused without writing past it */
	size_t lim = nd_size(); ASSUME(lim < pos);
	size_t p2 = 0; uint8_t o2[10];
	CHECK(lzma_vli_encode(v, NULL, o2, &p2, lim) == LZMA_PROG_ERROR, "single-call mode refuses a too small buffer");
	if (pos == 9) WITNESS("nine-byte VLI");
}

/* resumable VLI encoding: any split of the output gives the same bytes */
void harness_vli_resume(void)
{
	uint64_t v = nd_u64();
	ASSUME(v <= LZMA_VLI_MAX);
	uint8_t whole[9], part[9];
	size_t wp = 0;
	CHECK(lzma_vli_encode(v, NULL, whole, &wp, 9) == LZMA_OK, "single call");
	size_t vpos = 0, pp = 0, cut = nd_size();
	ASSUME(cut <= 9);
	lzma_ret r1 = lzma_vli_encode(v, &vpos, part, &pp, cut);
	if (cut >= wp) { CHECK(r1 == LZMA_STREAM_END && pp == wp, "fits: finished in the first call"); }
	else {
		CHECK((cut == 0 ? r1 == LZMA_BUF_ERROR : r1 == LZMA_OK) && pp == cut, "first call fills exactly the space given");
		lzma_ret r2 = lzma_vli_encode(v, &vpos, part, &pp, 9);
		CHECK(r2 == LZMA_STREAM_END && pp == wp, "second call finishes");
		WITNESS("split encoding");
	}
	for (size_t i = 0; i < 9; ++i) if (i < wp) CHECK(part[i] == whole[i], "same bytes whatever the split");
}

/* O-g: LZMA2 dictionary size byte and LZMA1 properties byte */
void harness_lzma2_props(void)
{
	lzma_options_lzma opt;
	memset(&opt, 0, sizeof(opt));
	opt.dict_size = nd_u32();
	uint8_t b = 0xEE;
	CHECK(lzma_lzma2_props_encode(&opt, &b) == LZMA_OK, "props encode");
	uint32_t dec = 0;
	CHECK(spec_lzma2_dict(b, &dec), "encoded byte is a valid LZMA2 dictionary size code (0..40)");
	uint32_t want = opt.dict_size < 4096 ? 4096 : opt.dict_size;
	CHECK(dec >= want, "declared dictionary size is never smaller than the one the encoder uses");
	if (b > 0) {
		uint32_t smaller = 0;
		CHECK(spec_lzma2_dict((uint8_t)(b - 1), &smaller) && smaller < want, "and it is the smallest representable size that is large enough");
	}
	if (b == 40) WITNESS("maximum code");
	if (opt.dict_size == 65537) WITNESS("odd size just above 64 KiB");
}
void harness_lzma1_props(void)
{
	lzma_options_lzma opt;
	memset(&opt, 0, sizeof(opt));
	opt.lc = nd_u32(); opt.lp = nd_u32(); opt.pb = nd_u32(); opt.dict_size = nd_u32();
	uint8_t out[5];
	bool valid = opt.lc <= 4 && opt.lp <= 4 && opt.lc + opt.lp <= 4 && opt.pb <= 4;
	lzma_ret r = lzma_lzma_props_encode(&opt, out);
	CHECK((r == LZMA_OK) == valid, "LZMA1 properties encode exactly for lc+lp<=4, pb<=4");
	if (r == LZMA_OK) {
		CHECK(out[0] == (opt.pb * 5 + opt.lp) * 9 + opt.lc, "properties byte = (pb*5+lp)*9+lc");
		CHECK(spec_le32(out + 1) == opt.dict_size, "dictionary size little endian");
		WITNESS("valid lc/lp/pb");
	}
}

#ifdef HSMAX
/* O-a: Block Header */
void harness_block_header_encode(void)
{
	lzma_options_lzma lz; memset(&lz, 0, sizeof(lz));
	lz.dict_size = nd_u32();
	lzma_options_delta dl; dl.type = LZMA_DELTA_TYPE_BYTE; dl.dist = nd_u32();
	ASSUME(dl.dist >= 1 && dl.dist <= 256);
	lzma_options_bcj bj; bj.start_offset = nd_u32();
	lzma_filter f[LZMA_FILTERS_MAX + 1];
	unsigned nf = 1 + (nd_u32() & 1);
	unsigned k = 0;
	unsigned first_kind = nd_u32() % 3;   /* 0 delta, 1 bcj with offset, 2 bcj without options */
	static const lzma_vli bcj_ids[] = { LZMA_FILTER_X86, LZMA_FILTER_POWERPC, LZMA_FILTER_IA64, LZMA_FILTER_ARM,
		LZMA_FILTER_ARMTHUMB, LZMA_FILTER_SPARC, LZMA_FILTER_ARM64, LZMA_FILTER_RISCV };
	lzma_vli bid = bcj_ids[nd_u32() % 8];
	if (nf == 2) {
		if (first_kind == 0) { f[k].id = LZMA_FILTER_DELTA; f[k].options = &dl; }
		else if (first_kind == 1) { f[k].id = bid; f[k].options = &bj; }
		else { f[k].id = bid; f[k].options = NULL; }
		++k;
	}
	f[k].id = LZMA_FILTER_LZMA2; f[k].options = &lz; ++k;
	f[k].id = LZMA_VLI_UNKNOWN; f[k].options = NULL;
	lzma_block b; memset(&b, 0, sizeof(b));
	b.version = nd_u32() & 1;
	b.check = (lzma_check)(nd_u32() & 15);
	b.compressed_size = nd_bool() ? LZMA_VLI_UNKNOWN : nd_u64();
	b.uncompressed_size = nd_bool() ? LZMA_VLI_UNKNOWN : nd_u64();
	b.filters = f;
	lzma_ret rs = lzma_block_header_size(&b);
	if (rs != LZMA_OK) return;
	CHECK(b.header_size >= 8 && b.header_size <= 1024 && (b.header_size & 3) == 0, "header size in range, multiple of four");
	ASSUME(b.header_size <= HSMAX);
	uint8_t out[HSMAX];
#ifdef GHOST_CRC
	ghost_crc = nd_u32(); ghost_crc_buf = out; ghost_crc_len = b.header_size - 4;
#endif
	lzma_ret re = lzma_block_header_encode(&b, out);
	if (re != LZMA_OK) return;   /* e.g. Compressed Size so large that the Unpadded Size is out of range */
	spec_block_header sb;
	CHECK(spec_block_header_parse(out, b.header_size, (unsigned)b.check, &sb), "encoded Block Header is valid per the specification (size byte, flags, minimal VLIs, filter flags, zero padding, CRC32)");
	CHECK(sb.has_comp == (b.compressed_size != LZMA_VLI_UNKNOWN) && (!sb.has_comp || sb.comp == b.compressed_size), "Compressed Size field is truthful");
	CHECK(sb.has_uncomp == (b.uncompressed_size != LZMA_VLI_UNKNOWN) && (!sb.has_uncomp || sb.uncomp == b.uncompressed_size), "Uncompressed Size field is truthful");
	CHECK(sb.nfilters == nf, "number of filters");
	for (unsigned i = 0; i < 2; ++i) {
		if (i >= nf) continue;
		CHECK(sb.f[i].id == f[i].id, "filter id");
		if (f[i].id == LZMA_FILTER_LZMA2) {
			uint32_t want = lz.dict_size < 4096 ? 4096 : lz.dict_size;
			CHECK(sb.f[i].value >= want, "declared LZMA2 dictionary size covers the encoder's");
		} else if (f[i].id == LZMA_FILTER_DELTA) CHECK(sb.f[i].value == dl.dist, "delta distance");
		else CHECK(sb.f[i].value == (f[i].options ? bj.start_offset : 0), "BCJ start offset");
	}
	if (nf == 2 && sb.has_comp && sb.has_uncomp) WITNESS("two filters and both sizes");
	WITNESS("a header was encoded");
}
#endif

/* O-h(i): bound functions - arithmetic */
void harness_bounds(void)
{
	uint64_t u = nd_u64();
	uint64_t bb = lzma_block_buffer_bound64(u);
	/* spec-derived worst case: uncompressed LZMA2 chunks of 64 KiB (3-byte header each),
	 * end marker, Block Header <= 92?, check <= 64, padding */
	if (bb != 0) {
		unsigned __int128 chunks = ((unsigned __int128)u + 65535) / 65536;
		unsigned __int128 lzma2 = (unsigned __int128)u + chunks * 3 + 1;
		CHECK((unsigned __int128)bb >= lzma2 + 12 + 64, "block bound covers worst-case LZMA2 (uncompressed chunks) + minimal header + largest check");
		CHECK((bb & 3) == 0, "block bound is a multiple of four (includes Block Padding)");
		CHECK(bb <= LZMA_VLI_MAX, "bound is a valid VLI");
		WITNESS("non-zero bound");
	} else {
		CHECK(u > ((uint64_t)1 << 62), "bound refuses only sizes that cannot fit");
		WITNESS("refused size");
	}
	size_t us = nd_size();
	size_t sb = lzma_stream_buffer_bound(us);
	if (sb != 0) {
		uint64_t b2 = lzma_block_buffer_bound64(us);
		CHECK(b2 != 0 && (unsigned __int128)sb >= (unsigned __int128)b2 + 12 + 12 + 8, "stream bound = block bound + header + footer + index");
	}
}
