/*
 * C02 O-d / C06: the Index encoder (index_encoder.c: index_encode, lzma_index_buffer_encode)
 * with the lzma_index accessors it uses replaced by a K-record model (index.c itself is
 * C13's subject), arbitrary output slicing, and the CRC32 replaced by a chaining hash so that
 * "CRC over exactly the preceding bytes, once" is checkable structurally.
 */
#include "vcommon.h"
#include "common.h"
#include "index.h"

#ifndef KREC
#define KREC 2
#endif
#define OUTMAX (1 + 1 + KREC * 18 + 3 + 4)

/* chaining hash standing in for CRC32: h(a||b, c) == h(b, h(a, c)) */
uint32_t vstub_crc32(const uint8_t *buf, size_t size, uint32_t crc)
{
	for (size_t i = 0; i < size; ++i)
		crc += (uint32_t)buf[i] + 1u;   /* additive: cheap for the solver, still position-count sensitive */
	return crc;
}
#define lzma_crc32 vstub_crc32

/* model index */
static unsigned m_count; static uint64_t m_unpadded[KREC], m_uncomp[KREC];
static unsigned m_iter_pos;
struct lzma_index_s { int dummy; };
static struct lzma_index_s the_index;
#define lzma_index_block_count v_index_block_count
#define lzma_index_iter_init v_index_iter_init
#define lzma_index_iter_next v_index_iter_next
#define lzma_index_padding_size v_index_padding_size
#define lzma_index_size v_index_size
#include "../../spec/xzspec.h"
static uint64_t m_list(void)
{
	uint64_t t = 0;
	for (unsigned j = 0; j < KREC; ++j) if (j < m_count) t += spec_vli_size(m_unpadded[j]) + spec_vli_size(m_uncomp[j]);
	return t;
}
static lzma_vli v_index_block_count(const lzma_index *i) { (void)i; return m_count; }
static void v_index_iter_init(lzma_index_iter *it, const lzma_index *i) { (void)i; memset(it, 0, sizeof(*it)); m_iter_pos = 0; }
static lzma_bool v_index_iter_next(lzma_index_iter *it, lzma_index_iter_mode mode)
{
	CHECK(mode == LZMA_INDEX_ITER_BLOCK, "encoder iterates Blocks");
	if (m_iter_pos >= m_count) return true;
	it->block.unpadded_size = m_unpadded[m_iter_pos];
	it->block.uncompressed_size = m_uncomp[m_iter_pos];
	++m_iter_pos;
	return false;
}
static uint32_t v_index_padding_size(const lzma_index *i) { (void)i; return (uint32_t)((4 - ((1 + spec_vli_size(m_count) + m_list() + 4) & 3)) & 3); }
static lzma_vli v_index_size(const lzma_index *i) { (void)i; return (1 + spec_vli_size(m_count) + m_list() + 4 + 3) & ~(lzma_vli)3; }

#include "index_encoder.c"

static void mk_model(void)
{
	m_count = nd_u32() % (KREC + 1);
	for (unsigned j = 0; j < KREC; ++j) {
		m_unpadded[j] = nd_u64(); m_uncomp[j] = nd_u64();
		ASSUME(m_unpadded[j] >= 5 && m_unpadded[j] <= (LZMA_VLI_MAX & ~(uint64_t)3) && m_uncomp[j] <= LZMA_VLI_MAX);
	}
}

/* spec parse of an Index field (format spec section 4) */
static void check_index_bytes(const uint8_t *out, size_t n)
{
	size_t pos = 0;
	CHECK(n >= 8 && (n & 3) == 0, "Index size is a multiple of four");
	CHECK(out[pos++] == 0x00, "Index Indicator");
	uint64_t cnt = 0; size_t k = spec_vli(out + pos, n - pos, &cnt);
	CHECK(k != 0 && cnt == m_count, "Number of Records, minimally encoded");
	pos += k;
	for (unsigned j = 0; j < KREC; ++j) {
		if (j >= m_count) continue;
		uint64_t a = 0, b = 0;
		size_t ka = spec_vli(out + pos, n - pos, &a);
		CHECK(ka != 0 && a == m_unpadded[j], "Unpadded Size of the record is truthful");
		pos += ka;
		size_t kb = spec_vli(out + pos, n - pos, &b);
		CHECK(kb != 0 && b == m_uncomp[j], "Uncompressed Size of the record is truthful");
		pos += kb;
	}
	CHECK(n - pos >= 4 && n - pos <= 7, "0-3 bytes of Index Padding then CRC32");
	for (; pos + 4 < n; ++pos) CHECK(out[pos] == 0, "Index Padding is zero");
	uint32_t h = vstub_crc32(out, n - 4, 0);
	CHECK(spec_le32(out + n - 4) == h, "CRC32 field covers exactly all preceding bytes of the Index, once");
}

void harness_index_encode_sliced(void)
{
	mk_model();
	lzma_next_coder next = LZMA_NEXT_CODER_INIT;
	CHECK(lzma_index_encoder_init(&next, NULL, (const lzma_index *)&the_index) == LZMA_OK, "init");
	uint8_t out[OUTMAX];
	size_t out_pos = 0;
	lzma_ret r = LZMA_OK;
	unsigned calls = 0;
	for (unsigned c = 0; c < 4; ++c) {
		size_t lim = c < 3 ? nd_size() : OUTMAX;
		ASSUME(lim >= out_pos && lim <= OUTMAX);
		size_t p0 = out_pos;
		r = next.code(next.coder, NULL, NULL, NULL, 0, out, &out_pos, lim, LZMA_RUN);
		CHECK(out_pos >= p0 && out_pos <= lim, "output position stays inside the slice");
		++calls;
		if (r != LZMA_OK) break;
	}
	CHECK(r == LZMA_STREAM_END, "the Index is complete once enough space was given");
	CHECK(out_pos == (size_t)v_index_size(NULL), "bytes produced == lzma_index_size()");
	check_index_bytes(out, out_pos);
	if (calls >= 3) WITNESS("encoded in three or more pieces");
	next.end(next.coder, NULL);
}

void harness_index_buffer_encode(void)
{
	mk_model();
	uint8_t out[OUTMAX];
	size_t out_pos = 0, space = nd_size();
	ASSUME(space <= OUTMAX);
	lzma_ret r = lzma_index_buffer_encode((const lzma_index *)&the_index, out, &out_pos, space);
	if (space < (size_t)v_index_size(NULL)) { CHECK(r == LZMA_BUF_ERROR && out_pos == 0, "too small: BUF_ERROR, nothing written"); WITNESS("too small buffer"); return; }
	CHECK(r == LZMA_OK && out_pos == (size_t)v_index_size(NULL), "single call writes exactly lzma_index_size() bytes");
	check_index_bytes(out, out_pos);
	WITNESS("encoded");
}

/* Tail of the Index (Index Padding + CRC32) from ANY state of the running CRC, with the
 * output cut at any point: the CRC32 field holds the CRC of everything before it, once. */
void harness_index_crc_tail(void)
{
	lzma_index_coder c;
	memset(&c, 0, sizeof(c));
	c.index = (const lzma_index *)&the_index;
	c.sequence = SEQ_PADDING;
	c.pos = nd_size() % 4;                 /* padding bytes still to write */
	c.crc32 = nd_u32();                    /* CRC (chaining hash) of the Index bytes written by earlier calls */
	const size_t pad = c.pos; const uint32_t crc0 = c.crc32;
	uint8_t out[8]; size_t op = 0;
	size_t cut = nd_size(); ASSUME(cut <= 7);
	lzma_ret r = index_encode(&c, NULL, NULL, NULL, 0, out, &op, cut, LZMA_RUN);
	if (cut < pad + 4) {
		CHECK(r == LZMA_OK && op == cut, "output space exhausted: everything given was used, more needed");
		r = index_encode(&c, NULL, NULL, NULL, 0, out, &op, 8, LZMA_RUN);
	}
	CHECK(r == LZMA_STREAM_END && op == pad + 4, "padding and CRC32 complete");
	uint32_t want = crc0;
	for (size_t i = 0; i < 3; ++i) if (i < pad) { CHECK(out[i] == 0, "Index Padding is zero"); want += 1u; }
	CHECK(spec_le32(out + pad) == want, "CRC32 field = CRC of all preceding Index bytes, each counted once, whatever the output slicing");
	if (cut > pad && cut < pad + 4) WITNESS("output ended inside the CRC32 field");
	if (cut < pad) WITNESS("output ended inside the padding");
}
