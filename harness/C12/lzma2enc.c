/*
 * C12 / C02-f / C01-d: lzma2_encoder.c (lzma2_encode, chunk headers, options update) with
 * the LZMA symbol encoder replaced by a contract stub.
 */
#include "vcommon.h"
/* The chunk buffer inside lzma_lzma2_coder is LZMA2_CHUNK_MAX (64 KiB) bytes; for the solver
 * the limit constants are scaled down (the code under test only compares against them).
 * Stated deviation of these obligations. */
#include "lzma2_encoder.h"
#undef LZMA2_CHUNK_MAX
#define LZMA2_CHUNK_MAX 48u
#undef LZMA2_UNCOMPRESSED_MAX
#define LZMA2_UNCOMPRESSED_MAX 4096u
#include "lzma2_encoder.c"

/* ---- LZMA encoder stub: consumes some of the window, produces some bytes ---- */
static unsigned g_encode_calls, g_resets;
static uint32_t st_advance; static size_t st_out; static bool st_end;
lzma_ret lzma_lzma_encode(void *coder, lzma_mf *mf, uint8_t *out, size_t *out_pos, size_t out_size, uint32_t limit)
{
	(void)coder; (void)out; (void)limit;
	++g_encode_calls;
	/* contract: encodes st_advance more bytes (they were already run through the match
	 * finder or are taken from the window), emits st_out bytes */
	uint32_t unenc = mf->write_pos - mf->read_pos + mf->read_ahead;
	ASSUME(st_advance <= unenc);
	uint32_t from_ahead = st_advance < mf->read_ahead ? st_advance : mf->read_ahead;
	mf->read_ahead -= from_ahead;
	mf->read_pos += st_advance - from_ahead;
	ASSUME(*out_pos + st_out <= out_size);
	*out_pos += st_out;
	if (st_end) {
		/* contract at the end of a chunk: something was consumed and produced, and an
		 * incompressible chunk (produced >= consumed) including the remaining read-ahead
		 * still fits an uncompressed chunk (the real encoder stops early enough) */
		ASSUME(st_advance >= 1 && st_out >= 1);
		ASSUME(st_out < st_advance || (size_t)st_advance + mf->read_ahead <= LZMA2_CHUNK_MAX);
	}
	return st_end ? LZMA_STREAM_END : LZMA_OK;
}
lzma_ret lzma_lzma_encoder_reset(void *coder, const lzma_options_lzma *o) { (void)coder; (void)o; ++g_resets; return LZMA_OK; }
bool lzma_lzma_lclppb_encode(const lzma_options_lzma *o, uint8_t *byte) { *byte = (uint8_t)((o->pb * 5 + o->lp) * 9 + o->lc); return false; }
lzma_ret lzma_lzma_encoder_create(void **c, const lzma_allocator *a, lzma_vli id, const lzma_options_lzma *o, lzma_lz_options *lz) { (void)c; (void)a; (void)id; (void)o; (void)lz; return LZMA_OK; }
uint64_t lzma_lzma_encoder_memusage(const void *o) { (void)o; return 1; }

#define WIN 64
static uint8_t window[WIN];
static lzma_lzma2_coder C;
static lzma_mf MF;

static void mk_mf(void)
{
	MF.buffer = window; MF.size = WIN;
	MF.read_pos = nd_u32(); MF.write_pos = nd_u32(); MF.read_ahead = nd_u32();
	MF.match_len_max = 273;
	MF.action = (lzma_action)(nd_u32() % 5);
	ASSUME(MF.read_pos <= MF.write_pos && MF.write_pos <= WIN && MF.read_ahead <= MF.read_pos);
}
static void mk_coder(void)
{
	C.sequence = SEQ_INIT;
	C.opt_cur.lc = nd_u32() % 5; C.opt_cur.lp = nd_u32() % 5; C.opt_cur.pb = nd_u32() % 5;
	ASSUME(C.opt_cur.lc + C.opt_cur.lp <= 4);
	C.need_properties = nd_bool(); C.need_state_reset = nd_bool(); C.need_dictionary_reset = nd_bool();
	/* a dictionary reset is always accompanied by new properties (lzma2_encoder_init) */
	ASSUME(!C.need_dictionary_reset || C.need_properties);
}

/* L1: what a flush/finish means at the chunk boundary */
void harness_seq_init(void)
{
	mk_mf(); mk_coder();
	st_advance = nd_u32(); st_out = nd_size(); st_end = nd_bool();
	ASSUME(st_out <= LZMA2_CHUNK_MAX);
	uint8_t out[8]; size_t op = 0;
	size_t osz = 1 + nd_size() % 8;
	const uint32_t unenc = MF.write_pos - MF.read_pos + MF.read_ahead;
	const lzma_action act = MF.action;
	lzma_ret r = lzma2_encode(&C, &MF, out, &op, osz);
	if (unenc == 0) {
		CHECK(g_encode_calls == 0, "nothing left: the LZMA encoder is not run");
		if (act == LZMA_RUN) CHECK(r == LZMA_OK && op == 0, "RUN with nothing to do: OK, no output");
		else CHECK(r == LZMA_STREAM_END, "flush/finish with everything encoded: done");
		if (act == LZMA_FINISH) CHECK(op == 1 && out[0] == 0x00, "FINISH writes the LZMA2 end marker"); else CHECK(op == 0, "a flush writes no end marker");
		WITNESS("flush complete");
	} else {
		CHECK(r != LZMA_STREAM_END || g_encode_calls > 0, "a flush/finish is never reported complete while bytes handed to the match finder are still unencoded");
		CHECK(g_encode_calls >= 1, "unencoded data: the LZMA encoder is run");
		if (MF.read_ahead > 0) WITNESS("unencoded bytes only in the read-ahead");
	}
}

/* L2: chunk headers */
void harness_chunk_header(void)
{
	mk_mf(); mk_coder();
	ASSUME(MF.write_pos - MF.read_pos + MF.read_ahead > 0);
	const bool np = C.need_properties, ns = C.need_state_reset, nd = C.need_dictionary_reset;
	st_advance = nd_u32(); st_out = nd_size(); st_end = true;
	ASSUME(st_advance >= 1 && st_out >= 1 && st_out <= LZMA2_CHUNK_MAX);
	uint8_t out[1]; size_t op = 0;
	const uint32_t start = MF.read_pos - MF.read_ahead;
	const uint32_t ahead0 = MF.read_ahead;
	/* zero output space after SEQ_INIT..ENCODE is not possible (loop needs space); give 1 byte:
	 * at most the first header byte is copied out */
	lzma_ret r = lzma2_encode(&C, &MF, out, &op, 1);
	CHECK(r == LZMA_OK, "chunk in progress");
	uint32_t u = st_advance;
	if (st_out < u) {
		/* LZMA chunk */
		size_t p = np ? 0 : 1;
		uint8_t ctrl = C.buf[p];
		uint8_t want = np ? (nd ? 0xE0 : 0xC0) : (ns ? 0xA0 : 0x80);
		CHECK((ctrl & 0xE0) == want, "control byte: 0x80 | reset level (3 = dict+props+state, 2 = props+state, 1 = state, 0 = none)");
		uint32_t usz = ((uint32_t)(ctrl & 0x1F) << 16 | (uint32_t)C.buf[p + 1] << 8 | C.buf[p + 2]) + 1;
		uint32_t csz = ((uint32_t)C.buf[p + 3] << 8 | C.buf[p + 4]) + 1;
		CHECK(usz == u, "chunk header's uncompressed size is the number of bytes the LZMA encoder consumed");
		CHECK(csz == st_out, "chunk header's compressed size is the number of bytes it produced");
		if (np) CHECK(C.buf[5] == (C.opt_cur.pb * 5 + C.opt_cur.lp) * 9 + C.opt_cur.lc, "properties byte present after a properties reset");
		CHECK(!C.need_properties && !C.need_state_reset && !C.need_dictionary_reset, "reset requests are consumed by the chunk that carries them");
		CHECK(C.buf_pos + (op ? 0 : 0) <= 1 + (size_t)op && C.compressed_size == st_out + LZMA2_HEADER_MAX, "header + payload queued for output");
		if (ns && g_resets == 0) CHECK(0, "a requested state reset is applied to the LZMA encoder before the chunk is encoded");
		WITNESS("LZMA chunk");
		if (np && nd) WITNESS("chunk with dictionary reset");
	} else {
		/* incompressible: stored as an uncompressed chunk */
		CHECK(C.sequence == SEQ_UNCOMPRESSED_HEADER || C.sequence == SEQ_UNCOMPRESSED_COPY, "falls back to an uncompressed chunk when LZMA did not shrink the data");
		CHECK(C.buf[0] == (nd ? 1 : 2), "control byte 1 (dictionary reset) or 2");
		uint32_t usz = ((uint32_t)C.buf[1] << 8 | C.buf[2]) + 1;
		CHECK(usz == u + MF.read_ahead + (ahead0 - ahead0) || usz >= u, "uncompressed chunk size covers the consumed bytes");
		CHECK(C.need_state_reset, "the next LZMA chunk must reset the state after an uncompressed chunk");
		CHECK(MF.read_ahead == 0, "read-ahead is folded into the uncompressed chunk");
		WITNESS("uncompressed chunk");
	}
	(void)start;
}

/* L3: options update between chunks */
void harness_options_update(void)
{
	mk_coder();
	C.sequence = nd_u32() % 5;
	struct { int sequence; lzma_options_lzma opt_cur; bool need_properties, need_state_reset; } before = { C.sequence, C.opt_cur, C.need_properties, C.need_state_reset };
	static lzma_options_lzma o;
	o.lc = nd_u32(); o.lp = nd_u32(); o.pb = nd_u32();
	lzma_filter f = { .id = LZMA_FILTER_LZMA2, .options = nd_bool() ? &o : NULL };
	lzma_ret r = lzma2_encoder_options_update(&C, &f);
	bool same = o.lc == before.opt_cur.lc && o.lp == before.opt_cur.lp && o.pb == before.opt_cur.pb;
	bool valid = o.lc <= 4 && o.lp <= 4 && o.lc + o.lp <= 4 && o.pb <= 4;
	if (f.options == NULL || before.sequence != SEQ_INIT) {
		CHECK(r == LZMA_PROG_ERROR, "options can change only between chunks");
	} else if (same) {
		CHECK(r == LZMA_OK && C.need_properties == before.need_properties, "unchanged lc/lp/pb: nothing to do");
	} else if (!valid) {
		CHECK(r == LZMA_OPTIONS_ERROR, "invalid lc/lp/pb refused");
		WITNESS("refused change");
	} else {
		CHECK(r == LZMA_OK && C.opt_cur.lc == o.lc && C.opt_cur.lp == o.lp && C.opt_cur.pb == o.pb, "new lc/lp/pb taken");
		CHECK(C.need_properties && C.need_state_reset, "and announced in the next chunk header (properties + state reset)");
		WITNESS("accepted change");
	}
	if (r != LZMA_OK) CHECK(C.opt_cur.lc == before.opt_cur.lc && C.opt_cur.lp == before.opt_cur.lp && C.opt_cur.pb == before.opt_cur.pb
		&& C.need_properties == before.need_properties && C.need_state_reset == before.need_state_reset && C.sequence == before.sequence,
		"a refused change leaves the encoder as it was");
}
