/*
 * C12: stream_encoder.c (stream_encode at a Block boundary, stream_encoder_update) with the
 * Block encoder, Index and header encoders replaced by recording stubs.
 */
#include "vcommon.h"
#include "stream_encoder.c"

static unsigned g_binit, g_bhs, g_appends, g_idx_init, g_copies, g_frees;
static lzma_ret st_binit_ret, st_bhs_ret, st_copy_ret, st_upd_ret;
static const lzma_filter *g_binit_filters;
static int dummy;
static lzma_ret blk_code(void *c, const lzma_allocator *a, const uint8_t *restrict in, size_t *restrict in_pos, size_t in_size,
		uint8_t *restrict out, size_t *restrict out_pos, size_t out_size, lzma_action action)
{
	(void)c; (void)a; (void)in; (void)out; (void)action;
	size_t ki = nd_size(), ko = nd_size();
	ASSUME(ki <= in_size - *in_pos && ko <= out_size - *out_pos);
	*in_pos += ki; *out_pos += ko;
	uint32_t r = nd_u32() % 3;
	return r == 0 ? LZMA_OK : r == 1 ? LZMA_STREAM_END : LZMA_DATA_ERROR;
}
static lzma_ret idx_code(void *c, const lzma_allocator *a, const uint8_t *restrict in, size_t *restrict in_pos, size_t in_size,
		uint8_t *restrict out, size_t *restrict out_pos, size_t out_size, lzma_action action)
{
	(void)c; (void)a; (void)in; (void)in_pos; (void)in_size; (void)out; (void)action;
	size_t ko = nd_size(); ASSUME(ko <= out_size - *out_pos); *out_pos += ko;
	return nd_bool() ? LZMA_OK : LZMA_STREAM_END;
}
static lzma_ret blk_update(void *c, const lzma_allocator *a, const lzma_filter *f, const lzma_filter *rf) { (void)c; (void)a; (void)f; (void)rf; return st_upd_ret; }
lzma_ret lzma_block_encoder_init(lzma_next_coder *next, const lzma_allocator *a, lzma_block *b)
{
	(void)a; ++g_binit; g_binit_filters = b->filters;
	if (st_binit_ret != LZMA_OK) {
		/* like the real one: a failed init tears the previous Block encoder down */
		next->code = NULL; next->coder = NULL; next->update = NULL;
		return st_binit_ret;
	}
	next->code = &blk_code; next->coder = &dummy; next->update = &blk_update;
	return LZMA_OK;
}
lzma_ret lzma_block_header_size(lzma_block *b) { ++g_bhs; b->header_size = 12; return st_bhs_ret; }
lzma_ret lzma_block_header_encode(const lzma_block *b, uint8_t *out) { (void)b; (void)out; return LZMA_OK; }
lzma_vli lzma_block_unpadded_size(const lzma_block *b) { (void)b; return 20; }
lzma_ret lzma_index_append(lzma_index *i, const lzma_allocator *a, lzma_vli u, lzma_vli c) { (void)i; (void)a; (void)u; (void)c; ++g_appends; return LZMA_OK; }
lzma_ret lzma_index_encoder_init(lzma_next_coder *n, const lzma_allocator *a, const lzma_index *i) { (void)n; (void)a; (void)i; ++g_idx_init; return LZMA_OK; }
lzma_vli lzma_index_size(const lzma_index *i) { (void)i; return 8; }
lzma_ret lzma_stream_footer_encode(const lzma_stream_flags *f, uint8_t *o) { (void)f; (void)o; return LZMA_OK; }
/* filter arrays: identity-tracked (tag in the id field), ownership counted */
lzma_ret lzma_filters_copy(const lzma_filter *src, lzma_filter *dst, const lzma_allocator *a)
{
	(void)a;
	if (st_copy_ret != LZMA_OK) return st_copy_ret;
	++g_copies;
	for (unsigned i = 0; i <= LZMA_FILTERS_MAX; ++i) dst[i] = src[i];
	return LZMA_OK;
}
static lzma_vli g_freed_tag;
void lzma_filters_free(lzma_filter *f, const lzma_allocator *a) { (void)a; ++g_frees; g_freed_tag = f[0].id; f[0].id = LZMA_VLI_UNKNOWN; }

static lzma_stream_coder SC;
static void mk(void)
{
	SC.block_encoder_is_initialized = nd_bool();
	SC.block_encoder.code = &blk_code; SC.block_encoder.coder = &dummy; SC.block_encoder.update = &blk_update;
	SC.block_options.filters = SC.filters;
	SC.block_options.check = LZMA_CHECK_CRC32;
	SC.block_options.header_size = 12;   /* larger than the 4 bytes of output space: stream_encode stops inside the Block Header */
	SC.index_encoder.code = &idx_code; SC.index_encoder.coder = &dummy;
	SC.filters[0].id = 0x1111; SC.filters[0].options = NULL;
	for (unsigned i = 1; i <= LZMA_FILTERS_MAX; ++i) { SC.filters[i].id = LZMA_VLI_UNKNOWN; SC.filters[i].options = NULL; }
	SC.buffer_pos = 0;
	st_binit_ret = nd_bool() ? LZMA_OK : (nd_bool() ? LZMA_MEM_ERROR : LZMA_OPTIONS_ERROR);
	st_bhs_ret = nd_bool() ? LZMA_OK : LZMA_OPTIONS_ERROR;
	st_copy_ret = nd_bool() ? LZMA_OK : LZMA_MEM_ERROR;
	st_upd_ret = nd_bool() ? LZMA_OK : LZMA_OPTIONS_ERROR;
}

/* Block boundary: what the actions mean when no Block is open */
void harness_block_boundary(void)
{
	mk();
	SC.sequence = SEQ_BLOCK_INIT;
	uint8_t in[4], out[4]; nd_bytes(in, 4);
	size_t n = nd_size(); ASSUME(n <= 4);
	size_t ip = 0, op = 0;
	uint32_t a = nd_u32() % 5;
	const bool was_init = SC.block_encoder_is_initialized;
	lzma_ret r = stream_encode(&SC, NULL, in, &ip, n, out, &op, 4, (lzma_action)a);
	if (n == 0) {
		CHECK(g_binit == 0 && g_bhs == 0, "no input since the last Block: no new (empty) Block is started, whatever the action");
		if (a == LZMA_RUN) CHECK(r == LZMA_OK, "RUN: waits for input");
		else if (a != LZMA_FINISH) { CHECK(r == LZMA_STREAM_END && op == 0, "flush/barrier with nothing pending completes at once without output"); WITNESS("flush with no new input"); }
		else { CHECK(g_idx_init == 1, "FINISH: the Index follows"); }
	} else {
		if (!was_init) CHECK(g_binit + (st_bhs_ret != LZMA_OK ? 1 : 0) >= 1, "a Block encoder is initialised for the new Block unless one was prepared by filters_update");
		else CHECK(g_binit == 0, "an encoder prepared by lzma_filters_update is used as is");
		if (r == LZMA_OK || r == LZMA_STREAM_END) CHECK(!SC.block_encoder_is_initialized, "the prepared-encoder flag is consumed by the Block that uses it");
		if (was_init) WITNESS("Block started with a prepared encoder");
	}
}

/* lzma_filters_update between Blocks / inside a Block / after the last Block */
void harness_filters_update(void)
{
	mk();
	SC.sequence = nd_u32() % 7;
	lzma_filter nf[LZMA_FILTERS_MAX + 1], rev[LZMA_FILTERS_MAX + 1];
	nf[0].id = 0x2222; nf[0].options = NULL; rev[0] = nf[0];
	for (unsigned i = 1; i <= LZMA_FILTERS_MAX; ++i) { nf[i].id = LZMA_VLI_UNKNOWN; nf[i].options = NULL; rev[i] = nf[i]; }
	const int seq0 = SC.sequence;
	lzma_ret r = stream_encoder_update(&SC, NULL, nf, rev);
	if (r == LZMA_OK) {
		CHECK(SC.filters[0].id == 0x2222, "the new chain is in effect for the following Blocks");
		CHECK(g_freed_tag == 0x1111 && g_frees == 1, "the old chain is released exactly once");
		CHECK(seq0 <= SEQ_BLOCK_ENCODE, "accepted only before the Index");
		if (seq0 <= SEQ_BLOCK_INIT) { CHECK(SC.block_encoder_is_initialized && g_binit == 1 && g_binit_filters != NULL, "between Blocks: the next Block's encoder is prepared with the new chain"); WITNESS("update between Blocks"); }
		CHECK(SC.block_options.filters == SC.filters, "block options keep pointing at the coder's own chain");
	} else {
		CHECK(SC.filters[0].id == 0x1111, "a refused update keeps the old chain");
		CHECK(SC.block_options.filters == SC.filters, "and the block options still point at it");
		CHECK(g_frees == (g_copies ? 1u : 0u) && (g_frees == 0 || g_freed_tag == 0x2222), "only the temporary copy of the new chain is released");
		if (seq0 <= SEQ_BLOCK_INIT && g_copies)
			CHECK(!SC.block_encoder_is_initialized, "between Blocks a refused update leaves NO half-initialised Block encoder marked as ready: the next Block re-initialises it with the old chain");
		if (seq0 > SEQ_BLOCK_ENCODE && g_copies) CHECK(r == LZMA_PROG_ERROR, "after the last Block: PROG_ERROR");
		if (g_copies && seq0 <= SEQ_BLOCK_INIT) WITNESS("update refused by the filter initialisation");
	}
}
