# C12 -- flush actions; mid-stream option changes (layers around the LZMA symbol coder)
S = "src/liblzma/"
FL = ["--object-bits", "10"]
LSTUB = ["lzma_lzma_encode (the LZMA symbol encoder) = contract stub: encodes an arbitrary number of the unencoded bytes (read-ahead first), emits an arbitrary number of bytes, reports chunk end or not; lzma_lzma_encoder_reset counts calls; lclppb byte = (pb*5+lp)*9+lc"]
L2 = dict(src="lzma2enc.c", defs=["VLOOP_MEM"], units=[S + "common/common.c"], flags=FL, stubs=LSTUB + ["LZMA2_CHUNK_MAX scaled to 48 and LZMA2_UNCOMPRESSED_MAX to 4096 for the solver (the code only compares against them)"], timeout_q=280,
          unwindset=[("vmemcpy", "", 10)])
OBLIGATIONS = [
    Obligation(name="lzma2_flush_boundary", func="harness_seq_init", unwind=10, functions=["lzma2_encode"],
        desc="lzma2_encode at a chunk boundary for every match-finder state and action: a flush/finish is complete (STREAM_END) only when NO byte handed to the match finder is unencoded (window rest AND read-ahead); FINISH then writes the end marker, a flush does not; otherwise the LZMA encoder is run",
        bounds_q="all window positions in a 64-byte window, all actions", **L2),
    Obligation(name="lzma2_chunk_headers", func="harness_chunk_header", unwind=10, functions=["lzma2_encode", "lzma2_header_lzma", "lzma2_header_uncompressed"],
        desc="when the LZMA encoder ends a chunk having consumed u bytes and produced c: the chunk header states exactly u and c, the control byte carries exactly the requested reset level (dictionary reset only with properties), the properties byte is present when needed, reset requests are consumed; c >= u falls back to an uncompressed chunk (control 1/2) that forces a state reset next",
        bounds_q="all sizes within LZMA2 limits, all reset-flag combinations", **L2),
    Obligation(name="lzma2_options_update", func="harness_options_update", unwind=4, functions=["lzma2_encoder_options_update"],
        desc="LZMA2 lc/lp/pb change: allowed only between chunks, invalid values refused with OPTIONS_ERROR, a refused change leaves the encoder unchanged, an accepted one sets need_properties and need_state_reset",
        bounds_q="all lc/lp/pb values, all sequence states", **L2),
]
SSTUB = ["Block encoder (init may fail with MEM_ERROR/OPTIONS_ERROR and then leaves no usable encoder; code() arbitrary), lzma_block_header_size/encode, Index append/encoder/size, footer encode, lzma_filters_copy/free = recording stubs with arbitrary outcomes"]
OBLIGATIONS += [
    Obligation(name="stream_encode_block_boundary", src="streamenc.c", func="harness_block_boundary", defs=["VLOOP_MEM"], unwind=8, units=[S + "common/common.c"], flags=FL, stubs=SSTUB, timeout_q=280,
        fp_restrict=["stream_encode.function_pointer_call.1/blk_code", "stream_encode.function_pointer_call.2/idx_code"],
        unwindset=[("stream_encode", "", 4), ("vmemcpy", "", 14)], functions=["stream_encode", "block_encoder_init"],
        desc="stream_encode between Blocks for every action: with no new input no Block is started (no empty Block), RUN waits, flush/barrier completes at once, FINISH goes on to the Index; with input a Block encoder is initialised unless lzma_filters_update prepared one, and that flag is consumed",
        bounds_q="<= 4 input bytes, all actions"),
    Obligation(name="stream_encoder_filters_update", src="streamenc.c", func="harness_filters_update", defs=["VLOOP_MEM"], unwind=8, units=[S + "common/common.c"], flags=FL, stubs=SSTUB, timeout_q=280,
        unwindset=[("vmemcpy", "", 90)], functions=["stream_encoder_update", "block_encoder_init"],
        desc="lzma_filters_update on the .xz Stream encoder in every sequence state, every outcome of copying/initialising/updating: accepted only before the Index; on success the new chain replaces the old one (old released once) and, between Blocks, the next Block's encoder is prepared with it; on refusal the old chain stays, only the temporary copy is released, and no half-initialised encoder is left marked as ready",
        bounds_q="all 7 sequence states, all stub outcomes"),
]
OBLIGATIONS += reuse("C01", r"lz_window_fill")   # flush: read_limit = write_pos, pending replay
OBLIGATIONS += reuse("C02", r"block_encode_body")   # a completed SYNC_FLUSH leaves the Block open and writes only payload
