/*
 * C13 O-a: lzma_index_* (real index.c) against a list-of-records model, for a symbolic
 * history of operations with sizes over the whole VLI range.
 */
#include "vcommon.h"
#include "index.c"

/* Allocator stub: requests are served from pools of STATICALLY TYPED objects chosen by the
 * requested size (lzma_index / index_stream / index_group + records).  CBMC keeps typed
 * objects field-sensitive, whereas malloc'd byte blocks made every field access a byte
 * extraction (measured: 24 M clauses for a single append, out of memory for 3 operations).
 * Exact-size memory safety of index.c is the subject of C04/C10 obligations, not of this one.
 * lzma_free() only records the release (double release is asserted against). */
#define POOLN 4
typedef struct { index_group g; index_record room[4]; } pool_group_t;
static lzma_index pool_index[POOLN]; static unsigned pool_index_n;
static index_stream pool_stream[POOLN]; static unsigned pool_stream_n;
static pool_group_t pool_group[POOLN]; static unsigned pool_group_n;
void *lzma_alloc(size_t size, const lzma_allocator *allocator)
{
	(void)allocator;
	if (size == sizeof(lzma_index)) {
		CHECK(pool_index_n < POOLN, "index pool large enough for the bounded history");
		return &pool_index[pool_index_n++];
	}
	if (size == sizeof(index_stream)) {
		CHECK(pool_stream_n < POOLN, "stream pool large enough for the bounded history");
		return &pool_stream[pool_stream_n++];
	}
	CHECK(size >= sizeof(index_group) && size <= sizeof(pool_group_t), "group request fits the pool slot");
	CHECK(pool_group_n < POOLN, "group pool large enough for the bounded history");
	return &pool_group[pool_group_n++].g;
}
void lzma_free(void *ptr, const lzma_allocator *allocator)
{
	(void)allocator; (void)ptr;
}
#include "../../spec/xzspec.h"

#ifndef CA_U1
#define CA_U1 7
#define CA_C1 100
#define CA_U2 9
#define CA_C2 50
#endif
#ifndef PART
#define PART 0
#endif
#ifndef PREALLOC
#define PREALLOC 1
#endif
#ifndef OPS
#define OPS "aca"
#endif
#define MS 3          /* max streams in the model */
#define MR 2          /* max records per stream */
typedef unsigned __int128 u128;
#define VLIMAX ((uint64_t)LZMA_VLI_MAX)

typedef struct {
	unsigned nrec;
	uint64_t unpadded[MR], uncomp[MR];
	uint64_t padding;
	bool has_flags;
	unsigned check;
} mstream;
typedef struct {
	unsigned ns;
	mstream s[MS];
} model;

static u128 ceil4(u128 v) { return (v + 3) & ~(u128)3; }
static u128 m_list_size(const mstream *s)
{
	u128 t = 0;
	for (unsigned j = 0; j < MR; ++j)
		if (j < s->nrec)
			t += spec_vli_size(s->unpadded[j]) + spec_vli_size(s->uncomp[j]);
	return t;
}
static u128 m_index_size(u128 count, u128 list) { return ceil4(1 + spec_vli_size((uint64_t)count) + list + 4); }
static u128 m_blocks_size(const mstream *s)
{
	u128 t = 0;
	for (unsigned j = 0; j < MR; ++j)
		if (j < s->nrec)
			t += ceil4(s->unpadded[j]);
	return t;
}
static u128 m_uncomp(const mstream *s)
{
	u128 t = 0;
	for (unsigned j = 0; j < MR; ++j)
		if (j < s->nrec)
			t += s->uncomp[j];
	return t;
}
/* size of stream k in the file, including its Stream Padding */
static u128 m_stream_file(const mstream *s)
{
	return 12 + m_blocks_size(s) + m_index_size(s->nrec, m_list_size(s)) + 12 + s->padding;
}
static u128 m_file_size(const model *m)
{
	u128 t = 0;
	for (unsigned k = 0; k < MS; ++k)
		if (k < m->ns)
			t += m_stream_file(&m->s[k]);
	return t;
}
static u128 m_total_uncomp(const model *m)
{
	u128 t = 0;
	for (unsigned k = 0; k < MS; ++k)
		if (k < m->ns)
			t += m_uncomp(&m->s[k]);
	return t;
}
static u128 m_total_count(const model *m)
{
	u128 t = 0;
	for (unsigned k = 0; k < MS; ++k)
		if (k < m->ns)
			t += m->s[k].nrec;
	return t;
}
static u128 m_total_list(const model *m)
{
	u128 t = 0;
	for (unsigned k = 0; k < MS; ++k)
		if (k < m->ns)
			t += m_list_size(&m->s[k]);
	return t;
}
static u128 m_total_blocks(const model *m)
{
	u128 t = 0;
	for (unsigned k = 0; k < MS; ++k)
		if (k < m->ns)
			t += m_blocks_size(&m->s[k]);
	return t;
}
static uint32_t m_checks(const model *m)
{
	uint32_t c = 0;
	for (unsigned k = 0; k < MS; ++k)
		if (k < m->ns && m->s[k].has_flags)
			c |= (uint32_t)1 << m->s[k].check;
	return c;
}

/* compare every accessor and a full iteration of `i` with the model */
static void compare(const lzma_index *i, const model *m)
{
#if PART == 0
	CHECK(lzma_index_stream_count(i) == m->ns, "stream_count");
	CHECK(lzma_index_block_count(i) == (uint64_t)m_total_count(m), "block_count");
	CHECK(lzma_index_total_size(i) == (uint64_t)m_total_blocks(m), "total_size = sum of padded Block sizes");
	CHECK(lzma_index_uncompressed_size(i) == (uint64_t)m_total_uncomp(m), "uncompressed_size");
	CHECK(lzma_index_size(i) == (uint64_t)m_index_size(m_total_count(m), m_total_list(m)), "index_size of the combined Index");
	CHECK(lzma_index_stream_size(i) == (uint64_t)(24 + m_total_blocks(m) + m_index_size(m_total_count(m), m_total_list(m))), "stream_size as a single Stream");
	CHECK(lzma_index_file_size(i) == (uint64_t)m_file_size(m), "file_size incl. Stream Padding");
	CHECK(lzma_index_checks(i) == m_checks(m), "checks bitmask = OR over all Streams with flags");
	CHECK(lzma_index_memused(i) == lzma_index_memusage(m->ns, (uint64_t)m_total_count(m)), "memused == memusage(streams, blocks)");

#endif
#if PART == 1
	/* iterate Blocks */
	lzma_index_iter it;
	lzma_index_iter_init(&it, i);
	u128 cbase = 0, ubase = 0;
	unsigned nfile = 0;
	for (unsigned k = 0; k < MS; ++k) {
		if (k >= m->ns) continue;
		const mstream *s = &m->s[k];
		u128 coff = cbase + 12, uoff = ubase;
		for (unsigned j = 0; j < MR; ++j) {
			if (j >= s->nrec) continue;
			bool end = lzma_index_iter_next(&it, LZMA_INDEX_ITER_BLOCK);
			CHECK(!end, "iterator yields every Block");
			++nfile;
			CHECK(it.stream.number == k + 1, "block's stream number");
			CHECK(it.block.number_in_file == nfile, "number_in_file");
			CHECK(it.block.number_in_stream == j + 1, "number_in_stream");
			CHECK(it.block.compressed_file_offset == (uint64_t)coff, "compressed_file_offset");
			CHECK(it.block.uncompressed_file_offset == (uint64_t)uoff, "uncompressed_file_offset");
			CHECK(it.block.compressed_stream_offset == (uint64_t)(coff - cbase), "compressed_stream_offset");
			CHECK(it.block.uncompressed_stream_offset == (uint64_t)(uoff - ubase), "uncompressed_stream_offset");
			CHECK(it.block.unpadded_size == s->unpadded[j], "unpadded_size");
			CHECK(it.block.total_size == (uint64_t)ceil4(s->unpadded[j]), "total_size");
			CHECK(it.block.uncompressed_size == s->uncomp[j], "uncompressed_size of block");
			coff += ceil4(s->unpadded[j]);
			uoff += s->uncomp[j];
		}
		cbase += m_stream_file(s);
		ubase += m_uncomp(s);
	}
	CHECK(lzma_index_iter_next(&it, LZMA_INDEX_ITER_BLOCK), "iterator ends after the last Block");

#endif
#if PART == 2
	/* iterate Streams */
	lzma_index_iter it;
	lzma_index_iter_init(&it, i);
	u128 cbase = 0, ubase = 0;
	for (unsigned k = 0; k < MS; ++k) {
		if (k >= m->ns) continue;
		const mstream *s = &m->s[k];
		bool end = lzma_index_iter_next(&it, LZMA_INDEX_ITER_STREAM);
		CHECK(!end, "iterator yields every Stream");
		CHECK(it.stream.number == k + 1, "stream number");
		CHECK(it.stream.block_count == s->nrec, "stream block_count");
		CHECK(it.stream.compressed_offset == (uint64_t)cbase, "stream compressed_offset");
		CHECK(it.stream.uncompressed_offset == (uint64_t)ubase, "stream uncompressed_offset");
		CHECK(it.stream.compressed_size == (uint64_t)(m_stream_file(s) - s->padding), "stream compressed_size");
		CHECK(it.stream.uncompressed_size == (uint64_t)m_uncomp(s), "stream uncompressed_size");
		CHECK(it.stream.padding == s->padding, "stream padding");
		CHECK((it.stream.flags != NULL) == s->has_flags, "stream flags present iff set");
		if (it.stream.flags != NULL)
			CHECK((unsigned)it.stream.flags->check == s->check, "stream flags check id");
		cbase += m_stream_file(s);
		ubase += m_uncomp(s);
	}
	CHECK(lzma_index_iter_next(&it, LZMA_INDEX_ITER_STREAM), "iterator ends after the last Stream");

#endif
#if PART == 3
	/* locate an arbitrary uncompressed offset */
	uint64_t t = nd_u64();
	lzma_index_iter loc;
	lzma_index_iter_init(&loc, i);
	bool notfound = lzma_index_iter_locate(&loc, t);
	CHECK(notfound == ((u128)t >= m_total_uncomp(m)), "locate fails exactly for offsets at or past the end");
	if (!notfound) {
		CHECK(loc.block.uncompressed_size > 0, "located Block is non-empty");
		CHECK(loc.block.uncompressed_file_offset <= t
			&& t - loc.block.uncompressed_file_offset < loc.block.uncompressed_size, "located Block contains the offset");
		/* identify it in the model */
		u128 ub = 0; unsigned nf = 0; bool matched = false;
		for (unsigned k = 0; k < MS; ++k) {
			if (k >= m->ns) continue;
			for (unsigned j = 0; j < MR; ++j) {
				if (j >= m->s[k].nrec) continue;
				++nf;
				if ((u128)t >= ub && (u128)t < ub + m->s[k].uncomp[j]) {
					matched = true;
					CHECK(loc.block.number_in_file == nf && loc.stream.number == k + 1
						&& loc.block.number_in_stream == j + 1, "located the model's Block");
				}
				ub += m->s[k].uncomp[j];
			}
		}
		CHECK(matched, "model has a Block containing the offset");
	}
#endif
}

/* one symbolic operation on (i, m); returns false if nothing was applicable */
static void step(lzma_index **ip, model *m, char opc)
{
	lzma_index *i = *ip;
	/* the KIND of each operation is fixed per obligation (-DOPS="...": a=append,
	 * p=stream_padding, f=stream_flags, c=cat); all sizes and flags stay symbolic */
	unsigned op = opc == 'a' ? 0 : opc == 'p' ? 1 : opc == 'f' ? 2 : 3;
	mstream *last = &m->s[m->ns - 1];
	if (op == 0) {
		/* append */
		uint64_t u = nd_u64(), c = nd_u64();
		ASSUME(last->nrec < MR);
		lzma_index_prealloc(i, PREALLOC); /* concrete: a symbolic allocation size is prohibitively expensive for CBMC */
		lzma_ret r = lzma_index_append(i, NULL, u, c);
		bool args_ok = u >= 5 && u <= (VLIMAX & ~(uint64_t)3) && c <= VLIMAX;
		if (!args_ok) { CHECK(r == LZMA_PROG_ERROR, "append: invalid sizes are PROG_ERROR"); return; }
		/* would the limits be exceeded? (independent 128-bit arithmetic) */
		model n = *m;
		mstream *nl = &n.s[n.ns - 1];
		nl->unpadded[nl->nrec] = u; nl->uncomp[nl->nrec] = c; nl->nrec++;
		u128 comp_sum = 0;
		for (unsigned j = 0; j < MR; ++j) if (j < last->nrec) comp_sum += ceil4(last->unpadded[j]);
		bool over = m_uncomp(nl) > VLIMAX
			|| comp_sum + u > (VLIMAX & ~(uint64_t)3)
			|| m_file_size(&n) - nl->padding + nl->padding > VLIMAX
			|| m_index_size(m_total_count(&n), m_total_list(&n)) > LZMA_BACKWARD_SIZE_MAX;
		/* note: only the LAST stream's file end matters; it is the file size */
#ifndef NOLIMIT
		CHECK((r == LZMA_OK) == !over, "append succeeds exactly when no format limit is exceeded");
#endif
		CHECK(r == LZMA_OK || r == LZMA_DATA_ERROR, "append: OK or DATA_ERROR");
		if (r == LZMA_OK) *m = n;
	} else if (op == 1) {
		uint64_t p = nd_u64();
		lzma_ret r = lzma_index_stream_padding(i, p);
		if (p > VLIMAX || (p & 3)) { CHECK(r == LZMA_PROG_ERROR, "padding must be a multiple of four"); return; }
		u128 fs = m_file_size(m) - last->padding + p;
		CHECK((r == LZMA_OK) == (fs <= VLIMAX), "stream_padding succeeds exactly when the file size stays a valid VLI");
		if (r == LZMA_OK) last->padding = p;
	} else if (op == 2) {
		lzma_stream_flags f;
		memset(&f, 0, sizeof(f));
		f.version = 0;
		f.backward_size = LZMA_VLI_UNKNOWN;
		f.check = (lzma_check)(nd_u32() & 15);
		lzma_ret r = lzma_index_stream_flags(i, &f);
		CHECK(r == LZMA_OK, "valid stream flags accepted");
		last->has_flags = true; last->check = (unsigned)f.check;
	} else {
		/* cat a fresh single-Stream index with 0 or 1 records */
		ASSUME(m->ns < MS);
		lzma_index *b = lzma_index_init(NULL);
		VMALLOC_NONNULL(b);
		mstream bs; memset(&bs, 0, sizeof(bs));
		if (nd_bool()) {
			uint64_t u = nd_u64(), c = nd_u64();
			ASSUME(u >= 5 && u <= (1ull << 40) && c <= (1ull << 40));
			lzma_index_prealloc(b, 1);
			CHECK(lzma_index_append(b, NULL, u, c) == LZMA_OK, "append to fresh index");
			bs.nrec = 1; bs.unpadded[0] = u; bs.uncomp[0] = c;
		}
		if (nd_bool()) {
			lzma_stream_flags f; memset(&f, 0, sizeof(f));
			f.backward_size = LZMA_VLI_UNKNOWN; f.check = (lzma_check)(nd_u32() & 15);
			CHECK(lzma_index_stream_flags(b, &f) == LZMA_OK, "flags on fresh index");
			bs.has_flags = true; bs.check = (unsigned)f.check;
		}
		lzma_ret r = lzma_index_cat(i, b, NULL);
		model n = *m;
		n.s[n.ns++] = bs;
		bool over = m_file_size(&n) > VLIMAX || m_total_uncomp(&n) > VLIMAX
			|| ceil4(1 + spec_vli_size((uint64_t)m_total_count(m)) + m_total_list(m) + 4
				+ 1 + spec_vli_size(bs.nrec) + m_list_size(&bs) + 4) > LZMA_BACKWARD_SIZE_MAX;
		CHECK((r == LZMA_OK) == !over, "cat succeeds exactly when no format limit is exceeded");
		if (r == LZMA_OK) *m = n; else lzma_index_end(b, NULL);
	}
}

void harness_index_model(void)
{
	lzma_index *i = lzma_index_init(NULL);
	VMALLOC_NONNULL(i);
	model m; memset(&m, 0, sizeof(m));
	m.ns = 1;
	static const char ops[] = OPS;
	for (unsigned h = 0; h + 1 < sizeof(ops); ++h)
		step(&i, &m, ops[h]);
	compare(i, &m);
#ifdef WITH_DUP
	lzma_index *d = lzma_index_dup(i, NULL);
	VMALLOC_NONNULL(d);
	compare(d, &m);
	compare(i, &m);   /* source unchanged */
	lzma_index_end(d, NULL);
#endif
	WITNESS("end of history reached");
	lzma_index_end(i, NULL);
}

/* Focused obligation: duplicate of a multi-Stream index reports the same check-type bitmask,
 * counts and sizes as its source (Streams without Blocks; check ids symbolic). */
void harness_dup_checks(void)
{
	lzma_index *i = lzma_index_init(NULL);
	lzma_stream_flags f; memset(&f, 0, sizeof(f));
	f.backward_size = LZMA_VLI_UNKNOWN; f.check = (lzma_check)(nd_u32() & 15);
	CHECK(lzma_index_stream_flags(i, &f) == LZMA_OK, "flags 1");
	lzma_index *b = lzma_index_init(NULL);
	lzma_stream_flags f2; memset(&f2, 0, sizeof(f2));
	f2.backward_size = LZMA_VLI_UNKNOWN; f2.check = (lzma_check)(nd_u32() & 15);
	CHECK(lzma_index_stream_flags(b, &f2) == LZMA_OK, "flags 2");
	CHECK(lzma_index_cat(i, b, NULL) == LZMA_OK, "cat of two empty Streams");
	uint32_t want = ((uint32_t)1 << f.check) | ((uint32_t)1 << f2.check);
	CHECK(lzma_index_checks(i) == want, "checks of the concatenation = OR of both Streams' check bits");
	lzma_index *d = lzma_index_dup(i, NULL);
	CHECK(d != NULL, "dup succeeds");
	CHECK(lzma_index_checks(d) == want, "duplicate reports the same check-type bitmask as the source");
	CHECK(lzma_index_stream_count(d) == 2 && lzma_index_block_count(d) == 0, "duplicate has the same counts");
	CHECK(lzma_index_file_size(d) == lzma_index_file_size(i), "duplicate has the same file size");
	CHECK(lzma_index_checks(i) == want, "source unchanged by dup");
	if (f.check != f2.check) WITNESS("two different check types");
}

/* Focused obligation: append into the last Stream after a concatenation (new record group in
 * a non-first Stream): numbering and offsets of the iterator and of locate(). */
void harness_cat_append(void)
{
	/* Sizes are CONCRETE here: with symbolic sizes every limit check inside append/cat is a
	 * symbolic branch whose join makes all tree pointers symbolic, and three operations then
	 * exceed 15 GB (measured).  The symbolic parts are the locate target and, in the sibling
	 * obligations, the check ids; single operations with fully symbolic sizes are covered by
	 * the index_<op>_* obligations. */
	const uint64_t u1 = CA_U1, c1 = CA_C1, u2 = CA_U2, c2 = CA_C2;
	lzma_index *i = lzma_index_init(NULL);
	lzma_index_prealloc(i, 1);
	CHECK(lzma_index_append(i, NULL, u1, c1) == LZMA_OK, "append 1");
	lzma_index *b = lzma_index_init(NULL);
	CHECK(lzma_index_cat(i, b, NULL) == LZMA_OK, "cat an empty Stream");
	lzma_index_prealloc(i, 1);
	CHECK(lzma_index_append(i, NULL, u2, c2) == LZMA_OK, "append 2 goes to the second Stream");
	uint64_t s1 = 12 + ((u1 + 3) & ~3ull) + ((1 + 1 + spec_vli_size(u1) + spec_vli_size(c1) + 4 + 3) & ~3ull) + 12;
	lzma_index_iter it;
	lzma_index_iter_init(&it, i);
	CHECK(!lzma_index_iter_next(&it, LZMA_INDEX_ITER_BLOCK), "first Block");
	CHECK(it.stream.number == 1 && it.block.number_in_file == 1 && it.block.number_in_stream == 1, "numbers of Block 1");
	CHECK(it.block.compressed_file_offset == 12 && it.block.uncompressed_file_offset == 0, "offsets of Block 1");
	CHECK(!lzma_index_iter_next(&it, LZMA_INDEX_ITER_BLOCK), "second Block");
	CHECK(it.stream.number == 2, "Block 2 is in Stream 2");
	CHECK(it.block.number_in_file == 2, "Block 2 is number 2 in the file");
	CHECK(it.block.number_in_stream == 1, "Block 2 is number 1 in its Stream");
	CHECK(it.block.compressed_file_offset == s1 + 12, "compressed offset of Block 2 = size of Stream 1 + header");
	CHECK(it.block.uncompressed_file_offset == c1, "uncompressed offset of Block 2");
	CHECK(it.block.unpadded_size == u2 && it.block.uncompressed_size == c2, "sizes of Block 2");
	CHECK(lzma_index_iter_next(&it, LZMA_INDEX_ITER_BLOCK), "no third Block");
	uint64_t t = nd_u64();
	ASSUME(t >= c1 && t - c1 < c2);
	lzma_index_iter loc;
	lzma_index_iter_init(&loc, i);
	CHECK(!lzma_index_iter_locate(&loc, t), "offset inside Block 2 is found");
	CHECK(loc.block.number_in_file == 2 && loc.block.number_in_stream == 1 && loc.stream.number == 2, "locate returns Block 2 with the right numbers");
	WITNESS("reached");
}
