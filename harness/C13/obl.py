# C13 -- Index and file-info APIs
S = "src/liblzma/"
U = [S + x for x in ["common/vli_size.c", "common/stream_flags_common.c"]]
IDXF = ["lzma_index_init", "lzma_index_append", "lzma_index_cat", "lzma_index_dup", "lzma_index_stream_flags",
        "lzma_index_stream_padding", "lzma_index_prealloc", "index_tree_append", "index_cat_helper", "index_dup_stream",
        "lzma_index_iter_init", "lzma_index_iter_next", "lzma_index_iter_locate", "iter_set_info", "lzma_index_file_size",
        "lzma_index_checks", "lzma_index_memused", "lzma_index_memusage", "lzma_index_end"]
UW = [("index_tree_node_end", "RECURSION", 4), ("index_cat_helper", "RECURSION", 3), ("index_tree_end", "RECURSION", 3),
      ("index_tree_next", "", 4), ("index_tree_locate", "", 4), ("index_tree_append", "", 4),
      ("lzma_index_iter_next", "", 4), ("lzma_index_iter_locate", "", 4)]
JOBS = 8
OBLIGATIONS = []
PARTS = ["accessors", "blockiter", "streamiter", "locate"]
PDESC = ["every accessor (block/stream counts, index/total/stream/file/uncompressed sizes, checks, memused)", "a full Block iteration (offsets, numbers, sizes)", "a full Stream iteration (numbers, offsets, sizes, padding, flags)", "locate(t) for symbolic t returns the unique non-empty Block containing t"]
STUBS = ["lzma_alloc/lzma_free: pools of statically typed lzma_index / index_stream / index_group(+4 records) objects chosen by request size; free is a no-op (exact-size heap safety of index.c: C04/C10)", "oracle: list-of-records model with 128-bit arithmetic (harness/C13/idx_model.c)"]
# Single operations from the initial state with FULLY symbolic sizes (whole 63-bit VLI range), each
# compared with the model; longer symbolic histories exceed CBMC's reach here (measured: two
# appends = 80 M clauses, three operations > 15 GB) and are replaced by the focused obligations below.
for ops in ["a", "p", "f", "c", "fc", "pa", "fa"]:
    for part in range(4):
        if ops in ("p", "f") and part in (1, 3):
            continue
        OBLIGATIONS.append(Obligation(
            name="index_%s_%s" % (ops, PARTS[part]), src="idx_model.c", func="harness_index_model",
            defs=['OPS="%s"' % ops, "PART=%d" % part], unwind=12, units=U, functions=IDXF,
            flags=["--object-bits", "10"], unwindset=UW, timeout_q=280, timeout_t=1800, mem_gb=8,
            tiers=("quick", "thorough") if len(ops) == 1 else ("thorough",), stubs=STUBS,
            desc="operation history '%s' from a fresh index (a=append(u,c); p=stream_padding(p); f=stream_flags(check); c=cat(fresh index with 0/1 records and optional flags)), ALL sizes symbolic over the whole 63-bit VLI range; compared with the list-of-records model: %s; the operation fails exactly when a format limit (VLI_MAX, UNPADDED_SIZE_MAX, BACKWARD_SIZE_MAX) would be exceeded and then changes nothing" % (ops, PDESC[part]),
            bounds_q="history '%s' (operation kinds fixed), sizes/flags/padding/locate target symbolic" % ops,
            outside="histories of three or more operations with symbolic sizes; AVL rotations (need >= 3 groups)"))
OBLIGATIONS += [
    Obligation(name="index_dup_checks", src="idx_model.c", func="harness_dup_checks", unwind=12, units=U, functions=IDXF,
        flags=["--object-bits", "10"], unwindset=UW, stubs=STUBS[:1],
        desc="two Streams with symbolic check types concatenated, then lzma_index_dup: the duplicate reports the same check-type bitmask, counts and file size as its source; source unchanged",
        bounds_q="2 Streams without Blocks; both check ids symbolic (0..15)"),
    Obligation(name="index_cat_then_append", src="idx_model.c", func="harness_cat_append", unwind=12, units=U, functions=IDXF,
        flags=["--object-bits", "10"], unwindset=UW, stubs=STUBS[:1],
        desc="append, cat(empty Stream), append (new record group in a non-first Stream): Block iteration and locate(t) for symbolic t report stream number, number_in_stream, number_in_file and offsets of the model",
        bounds_q="concrete record sizes (7/100, 9/50), symbolic locate target; see harness comment for why sizes are concrete"),
]
FI = dict(src="fileinfo.c", defs=[], units=[S + x for x in ["common/stream_flags_common.c"]],
          flags=["--object-bits", "10"], timeout_q=280, timeout_t=1800,
          hdefs=["lzma_index_decoder_init=vstub_idi", "lzma_index_total_size=vstub_its", "lzma_index_memused=vstub_imu", "lzma_index_stream_flags=vstub_isf", "lzma_index_stream_padding=vstub_isp", "lzma_index_cat=vstub_icat", "lzma_index_file_size=vstub_ifs", "lzma_index_end=vstub_iend"],
          fp_restrict=["decode_index.function_pointer_call.1/idx_code"],
          unwindset=[("file_info_decode", "^0", 4)], replace_calls=[("get_padding_size", "vstub_gps")],
          stubs=["Index decoder = contract stub (consumes an arbitrary amount, OK or STREAM_END), lzma_index_total_size returns an arbitrary value (what a - possibly malicious - Index claims), other lzma_index_* calls succeed; get_padding_size returns an arbitrary count <= buffer size; lzma_bufcpy only advances positions and the Stream Header/Footer decoders return arbitrary verdicts and flags (contents are irrelevant to the position arithmetic under test)"])
OBLIGATIONS += [
    Obligation(name="file_info_reverse_seek", func="harness_fi_padding_seek", unwind=20, functions=["file_info_decode", "reverse_seek", "seek_to_pos", "fill_temp"],
        desc="file-info decoder starting a backwards read from ANY target position in a file of ANY size: positions below 24 (no room for Stream Header + Footer) are DATA_ERROR (never a loop), the temporary buffer holds at least a footer's worth, a requested seek position is never beyond the file size, the walk never moves forwards",
        bounds_q="all file sizes / positions; <= 16 input bytes per call", **FI),
    Obligation(name="file_info_index_done", func="harness_fi_index_done", unwind=20, functions=["file_info_decode", "decode_index", "reverse_seek", "seek_to_pos"],
        desc="file-info decoder when the Index of a Stream has been decoded, for ANY total Block size the Index claims: claims larger than the room before the Index are DATA_ERROR; otherwise the next target/seek position stays inside the file and moves backwards",
        bounds_q="all claimed sizes, file sizes and positions", **FI),
    Obligation(name="file_info_first_call", func="harness_fi_first_call", unwind=20, functions=["file_info_decode", "fill_temp", "reverse_seek"],
        desc="first call of the file-info decoder for ANY file size and first 16 bytes: files shorter than a Stream Header are FORMAT_ERROR, sizes not a multiple of four are not walked, the first seek stays inside the file, never complete after the header alone",
        bounds_q="all 64-bit file sizes", **FI),
]
