/*
 * C13 / C04: file_info.c (file_info_decode) - seek requests never leave the file, the
 * backwards walk makes progress and terminates - as steps from arbitrary states of the
 * relevant sequence points.  The Index decoder and lzma_index functions are stubs.
 */
#include "vcommon.h"
#include "file_info.c"

static bool cut_gps, cut_hdr;   /* end the path where the step under test is over */
static int dummy; static uint64_t g_total_size; static lzma_ret g_idx_ret; static size_t g_idx_consume;
static lzma_ret idx_code(void *c, const lzma_allocator *a, const uint8_t *restrict in, size_t *restrict in_pos, size_t in_size,
		uint8_t *restrict out, size_t *restrict out_pos, size_t out_size, lzma_action action)
{
	(void)c; (void)a; (void)in; (void)out; (void)out_pos; (void)out_size; (void)action;
	size_t k = g_idx_consume; ASSUME(k <= in_size - *in_pos);
	*in_pos += k;
	return g_idx_ret;
}
lzma_ret lzma_index_decoder_init(lzma_next_coder *n, const lzma_allocator *a, lzma_index **i, uint64_t m) { (void)a; (void)i; (void)m; n->code = &idx_code; n->coder = &dummy; return LZMA_OK; }
lzma_vli lzma_index_total_size(const lzma_index *i) { (void)i; return g_total_size; }
uint64_t lzma_index_memused(const lzma_index *i) { (void)i; return 1; }
lzma_ret lzma_index_stream_flags(lzma_index *i, const lzma_stream_flags *f) { (void)i; (void)f; if (cut_hdr) ASSUME(0); return LZMA_OK; }
lzma_ret lzma_index_stream_padding(lzma_index *i, lzma_vli p) { (void)i; (void)p; return LZMA_OK; }
lzma_ret lzma_index_cat(lzma_index *d, lzma_index *s, const lzma_allocator *a) { (void)d; (void)s; (void)a; return LZMA_OK; }
lzma_vli lzma_index_file_size(const lzma_index *i) { (void)i; return nd_u64(); }
void lzma_index_end(lzma_index *i, const lzma_allocator *a) { (void)i; (void)a; }
/* Contents are irrelevant to the position arithmetic under test: copying into the 8 KiB
 * temporary buffer only advances the positions, and the header/footer decoders return an
 * arbitrary verdict with arbitrary (valid) flags. */
size_t lzma_bufcpy(const uint8_t *restrict in, size_t *restrict in_pos, size_t in_size, uint8_t *restrict out, size_t *restrict out_pos, size_t out_size)
{
	(void)in; (void)out;
	size_t a = in_size - *in_pos, b = out_size - *out_pos, k = a < b ? a : b;
	*in_pos += k; *out_pos += k;
	return k;
}
static lzma_ret any_flags(lzma_stream_flags *f, bool footer)
{
	uint32_t r = nd_u32() % 4;
	if (r == 1) return LZMA_FORMAT_ERROR;
	if (r == 2) return LZMA_DATA_ERROR;
	if (r == 3) return LZMA_OPTIONS_ERROR;
	f->version = 0; f->check = (lzma_check)(nd_u32() & 15);
	f->backward_size = footer ? 4 * (uint64_t)(1 + nd_u32()) : LZMA_VLI_UNKNOWN;
	return LZMA_OK;
}
lzma_ret lzma_stream_header_decode(lzma_stream_flags *f, const uint8_t *in) { (void)in; if (cut_hdr) ASSUME(0); return any_flags(f, false); }
lzma_ret lzma_stream_footer_decode(lzma_stream_flags *f, const uint8_t *in) { (void)in; return any_flags(f, true); }

/* get_padding_size() (counts trailing zero bytes of the temporary buffer, up to 8192 loop
 * iterations) is replaced by an arbitrary count <= the buffer size: an over-approximation */
size_t vstub_gps(const uint8_t *buf, size_t buf_size) { (void)buf; if (cut_gps) ASSUME(0); size_t k = nd_size(); ASSUME(k <= buf_size); return k; }

static lzma_file_info_coder FC;
static uint64_t seek_pos = UINT64_MAX; static lzma_index *dest;
#define NIN 16
static uint8_t in[NIN];

static void base(void)
{
	FC.file_size = nd_u64();
	ASSUME(FC.file_size >= 12 && FC.file_size <= LZMA_VLI_MAX && (FC.file_size & 3) == 0);
	FC.memlimit = UINT64_MAX; FC.external_seek_pos = &seek_pos; FC.dest_index = &dest;
	FC.index_decoder.code = &idx_code; FC.index_decoder.coder = &dummy;
	FC.this_index = (lzma_index *)&dummy;
	FC.first_header_flags.version = 0; FC.first_header_flags.check = (lzma_check)(nd_u32() & 15); FC.first_header_flags.backward_size = LZMA_VLI_UNKNOWN;
	FC.footer_flags = FC.first_header_flags; FC.footer_flags.backward_size = 4 * (uint64_t)(1 + (nd_u32() & 0xFFFFFF));
	for (unsigned i = 0; i < NIN; ++i) in[i] = nd_u8();
}
static void post(lzma_ret r, uint64_t target0)
{
	if (r == LZMA_SEEK_NEEDED) {
		CHECK(seek_pos <= FC.file_size, "a seek is never requested beyond the end of the file");
		CHECK(FC.file_cur_pos == seek_pos, "and the decoder's idea of the file position follows it");
		WITNESS("seek requested");
	}
	CHECK(FC.file_target_pos <= target0, "the backwards walk never moves forwards");
	CHECK(FC.file_target_pos <= FC.file_size && FC.file_cur_pos <= FC.file_size, "positions stay inside the file");
	CHECK(FC.temp_pos <= FC.temp_size && FC.temp_size <= sizeof(FC.temp), "temporary buffer bookkeeping stays inside the buffer");
}

/* S2: starting a backwards read (reverse_seek) from any target position */
void harness_fi_padding_seek(void)
{
	base();
	cut_gps = true;
	FC.sequence = SEQ_PADDING_SEEK;
	FC.file_target_pos = nd_u64(); ASSUME(FC.file_target_pos <= FC.file_size);
	FC.file_cur_pos = nd_u64(); ASSUME(FC.file_cur_pos <= FC.file_size);
	FC.stream_padding = nd_u64() >> 4;
	const uint64_t t0 = FC.file_target_pos;
	size_t n = nd_size(); ASSUME(n <= NIN);
	/* the application supplies what follows the current position */
	ASSUME(n <= FC.file_size - FC.file_cur_pos);
	size_t ip = 0;
	lzma_ret r = file_info_decode(&FC, NULL, in, &ip, n, NULL, NULL, 0, LZMA_RUN);
	if (t0 < 24) CHECK(r == LZMA_DATA_ERROR, "no room for a Stream (header + footer) before this point: the file is corrupt, never an endless loop");
	post(r, t0);
	if (r == LZMA_OK) WITNESS("reading backwards");
}

/* S1: the Index of a Stream has just been decoded: how far back is the Stream's start */
void harness_fi_index_done(void)
{
	base();
	cut_hdr = true; cut_gps = true;
	FC.sequence = SEQ_INDEX_DECODE;
	FC.temp_size = 0; FC.temp_pos = 0;
	FC.index_remaining = nd_u64() & 0xFF;
	FC.file_target_pos = nd_u64(); ASSUME(FC.file_target_pos <= FC.file_size && FC.file_target_pos >= 0);
	FC.file_cur_pos = nd_u64(); ASSUME(FC.file_cur_pos <= FC.file_size);
	g_total_size = nd_u64(); ASSUME(g_total_size <= LZMA_VLI_MAX);       /* what the decoded Index claims */
	g_idx_ret = nd_bool() ? LZMA_STREAM_END : LZMA_OK;
	g_idx_consume = nd_size();
	const uint64_t t0 = FC.file_target_pos;
	size_t n = nd_size(); ASSUME(n <= NIN && n <= FC.file_size - FC.file_cur_pos);
	ASSUME(g_idx_consume <= n && g_idx_consume <= FC.index_remaining);
	size_t ip = 0;
	lzma_ret r = file_info_decode(&FC, NULL, in, &ip, n, NULL, NULL, 0, LZMA_RUN);
	if (g_idx_ret == LZMA_STREAM_END && g_idx_consume == FC.index_remaining + g_idx_consume - FC.index_remaining && t0 < g_total_size + 12 && FC.index_remaining == 0 && r != LZMA_DATA_ERROR)
		CHECK(0, "an Index that claims more Block data than there is room before it is rejected");
	post(r, t0);
	if (r == LZMA_SEEK_NEEDED) WITNESS("seek to the previous Stream");
}

/* first call on a file of any size */
void harness_fi_first_call(void)
{
	base();
	FC.file_size = nd_u64();
	cut_gps = true;
	FC.sequence = SEQ_MAGIC_BYTES; FC.file_cur_pos = 0; FC.file_target_pos = 0; FC.temp_pos = 0; FC.temp_size = LZMA_STREAM_HEADER_SIZE;
	size_t n = nd_size(); ASSUME(n <= NIN);
	size_t ip = 0;
	lzma_ret r = file_info_decode(&FC, NULL, in, &ip, n, NULL, NULL, 0, LZMA_RUN);
	if (FC.file_size < 12) CHECK(r == LZMA_FORMAT_ERROR, "too small to be an .xz file");
	if (r == LZMA_SEEK_NEEDED) { CHECK(seek_pos <= FC.file_size, "first seek stays inside the file"); WITNESS("seek to the end of the file"); }
	if (r == LZMA_OK && FC.sequence != SEQ_MAGIC_BYTES) CHECK((FC.file_size & 3) == 0 && FC.file_size <= LZMA_VLI_MAX, "only files whose size is a multiple of four are walked");
	CHECK(r != LZMA_STREAM_END, "never complete after the header alone");
}
