/*
 * C07 / C09 (main-thread side, sequential part): stream_decode_mt() entering DIRECT (single
 * threaded) mode for a Block that does not fit the threading limit: by the time the Block
 * decoder is initialised no output-queue buffer and no worker thread remains allocated, so
 * the memory in use is the filter memory that was checked against memlimit_stop.
 */
#include "vcommon.h"
#include <pthread.h>
#include <time.h>
#include <signal.h>
#define pthread_mutex_lock(m) 0
#define pthread_mutex_unlock(m) 0
#define pthread_cond_wait(c, m) 0
#define pthread_cond_timedwait(c, m, t) 0
#define pthread_cond_signal(c) 0
#define pthread_mutex_init(m, a) 0
#define pthread_mutex_destroy(m) 0
#define pthread_cond_init(c, a) 0
#define pthread_cond_destroy(c) 0
#define pthread_create(t, a, f, x) 0
#define pthread_join(t, r) (++g_joins, 0)
#define pthread_sigmask(h, s, o) 0
#define pthread_condattr_init(a) 1
static unsigned g_joins;

#include "stream_decoder_mt.c"
#include "outqueue.c"

static struct lzma_stream_coder C;
static struct worker_thread WT[1];
static struct { lzma_outbuf b; uint8_t data[8]; } CACHED;
static bool cached_freed, threads_freed;
static int dummy;
static unsigned g_binit; static uint64_t g_q_alloc_at_init; static uint32_t g_q_bufs_at_init, g_thr_at_init;

void *lzma_alloc(size_t n, const lzma_allocator *a) { (void)n; (void)a; return NULL; }
void lzma_free(void *p, const lzma_allocator *a)
{
	(void)a;
	if (p == (void *)&CACHED.b) cached_freed = true;
	if (p == (void *)WT) threads_freed = true;
}
static lzma_ret blk_code(void *c, const lzma_allocator *a, const uint8_t *restrict in, size_t *restrict in_pos, size_t in_size,
		uint8_t *restrict out, size_t *restrict out_pos, size_t out_size, lzma_action action)
{ (void)c; (void)a; (void)in; (void)in_pos; (void)in_size; (void)out; (void)out_pos; (void)out_size; (void)action; return LZMA_OK; }
lzma_ret lzma_block_decoder_init(lzma_next_coder *n, const lzma_allocator *a, lzma_block *b)
{
	(void)a; (void)b; ++g_binit;
	g_q_alloc_at_init = C.outq.mem_allocated; g_q_bufs_at_init = C.outq.bufs_allocated; g_thr_at_init = C.threads_initialized;
	if (nd_bool()) return LZMA_MEM_ERROR;
	n->code = &blk_code; n->coder = &dummy;
	return LZMA_OK;
}
void lzma_filters_free(lzma_filter *f, const lzma_allocator *a) { (void)f; (void)a; }
void lzma_next_end(lzma_next_coder *n, const lzma_allocator *a) { (void)n; (void)a; }
/* read_output_and_wait (drains finished output, waits for workers) is replaced: its contract
 * here is only "returns OK or an error"; the queue state is set up by the harness */
lzma_ret vstub_row(struct lzma_stream_coder *coder, const lzma_allocator *allocator, uint8_t *restrict out, size_t *restrict out_pos, size_t out_size,
		bool *input_is_possible, bool waiting_allowed, mythread_condtime *wait_abs, bool *has_blocked)
{ (void)coder; (void)allocator; (void)out; (void)out_pos; (void)out_size; (void)input_is_possible; (void)waiting_allowed; (void)wait_abs; (void)has_blocked; return nd_bool() ? LZMA_OK : LZMA_DATA_ERROR; }

void harness_direct_mode_init(void)
{
	C.sequence = SEQ_BLOCK_DIRECT_INIT;
	C.block_decoder = LZMA_NEXT_CODER_INIT;
	C.block_options.filters = C.filters; C.filters[0].id = LZMA_VLI_UNKNOWN;
	C.mem_next_filters = nd_u64() >> 8; C.memlimit_stop = nd_u64();
	ASSUME(C.mem_next_filters <= C.memlimit_stop);          /* established by SEQ_BLOCK_INIT */
	/* output queue: possibly still holding output, possibly with a cached buffer from an
	 * earlier, threaded Block */
	bool busy = nd_bool(), has_cache = nd_bool();
	C.outq.head = NULL; C.outq.tail = NULL; C.outq.read_pos = 0;
	C.outq.bufs_in_use = busy ? 1 : 0;
	CACHED.b.allocated = nd_size() % 9; CACHED.b.next = NULL;
	C.outq.cache = has_cache ? &CACHED.b : NULL;
	C.outq.bufs_allocated = C.outq.bufs_in_use + (has_cache ? 1 : 0);
	C.outq.mem_in_use = busy ? 100 : 0;
	C.outq.mem_allocated = C.outq.mem_in_use + (has_cache ? sizeof(lzma_outbuf) + CACHED.b.allocated : 0);
	C.outq.bufs_limit = 4;
	/* worker threads left from earlier Blocks */
	C.threads = WT; C.threads_initialized = nd_u32() % 2; C.threads_max = 1; C.threads_free = NULL;
	WT[0].state = THR_IDLE;
	uint8_t in[4], out[4]; size_t ip = 0, op = 0;
	lzma_ret r = stream_decode_mt(&C, NULL, in, &ip, 0, out, &op, 4, LZMA_RUN);
	(void)r;
	if (g_binit) {
		CHECK(!busy, "direct mode starts only after all earlier output has been delivered");
		CHECK(g_q_alloc_at_init == 0 && g_q_bufs_at_init == 0, "no output-queue buffer (used or cached) remains allocated when the single-threaded Block decoder is initialised: its memory was only checked against the hard limit");
		CHECK(g_thr_at_init == 0 && (C.threads == NULL || threads_freed), "worker threads (and their buffers) are released first");
		if (has_cache) { CHECK(cached_freed, "the cached buffer was freed"); WITNESS("a cached buffer had to be released"); }
		if (r == LZMA_OK || r == LZMA_MEM_ERROR) CHECK(r != LZMA_OK || C.mem_direct_mode == C.mem_next_filters, "memory in use recorded as the filter memory");
		WITNESS("direct mode initialised");
	}
}
