/*
 * C07 (thread-modular): the threaded decoder's worker_decoder() of stream_decoder_mt.c run
 * alone against rely/guarantee pthread stubs (see harness/C08/worker.c for the method).
 */
#include "vcommon.h"
#include <pthread.h>
#include <time.h>
#include <signal.h>

static int v_mutex_lock(pthread_mutex_t *m);
static int v_mutex_unlock(pthread_mutex_t *m);
static int v_cond_wait(pthread_cond_t *c, pthread_mutex_t *m);
static int v_cond_signal(pthread_cond_t *c);
static bool g_destroyed_mutex;
#define pthread_mutex_lock(m) v_mutex_lock(m)
#define pthread_mutex_unlock(m) v_mutex_unlock(m)
#define pthread_cond_wait(c, m) v_cond_wait(c, m)
#define pthread_cond_timedwait(c, m, t) v_cond_wait(c, m)
#define pthread_cond_signal(c) v_cond_signal(c)
#define pthread_mutex_init(m, a) 0
#define pthread_mutex_destroy(m) (g_destroyed_mutex = true, 0)
#define pthread_cond_init(c, a) 0
#define pthread_cond_destroy(c) 0
#define pthread_create(t, a, f, x) 0
#define pthread_join(t, r) 0
#define pthread_sigmask(h, s, o) 0
#define pthread_condattr_init(a) 1

#include "stream_decoder_mt.c"

#define INSZ 8
#define OUTSZ 12
static struct lzma_stream_coder C;
static struct worker_thread T;
static struct { lzma_outbuf b; uint8_t data[OUTSZ]; } OB;
static uint8_t inbuf[INSZ];
static int dummy;
static bool in_freed;
static unsigned code_calls;

static lzma_ret dec_code(void *c, const lzma_allocator *a, const uint8_t *restrict in, size_t *restrict in_pos, size_t in_size,
		uint8_t *restrict out, size_t *restrict out_pos, size_t out_size, lzma_action action)
{
	(void)c; (void)a; (void)action;
	CHECK(!in_freed, "the input buffer is not used after it was freed");
	CHECK(in == inbuf && out == OB.data, "the worker decodes from its own input buffer into its own output buffer");
	size_t ki = nd_size(), ko = nd_size();
	ASSUME(ki <= in_size - *in_pos && ko <= out_size - *out_pos);
	*in_pos += ki; *out_pos += ko;
	uint32_t r = nd_u32() % 3;
	if (++code_calls >= 3) ASSUME(r != 0);            /* bound: the Block ends or fails by the third call */
	if (r == 1) { ASSUME(*in_pos == T.in_size && *out_pos == T.block_options.uncompressed_size); return LZMA_STREAM_END; }
	return r == 0 ? LZMA_OK : LZMA_DATA_ERROR;
}
void lzma_free(void *p, const lzma_allocator *a) { (void)a; if (p == (void *)inbuf) in_freed = true; }
void lzma_next_end(lzma_next_coder *n, const lzma_allocator *a) { (void)n; (void)a; }

/* ghost */
static bool held_thr, held_coder, sig_thr, sig_coder;
static worker_state snap_state; static size_t snap_in_filled, snap_in_size;
static lzma_ret snap_err; static struct worker_thread *snap_free; static bool snap_finished;
static size_t snap_pos, snap_dip; static uint64_t snap_use, snap_cached, snap_pin, snap_pout;
static lzma_outbuf *my_outbuf = &OB.b;    /* the buffer this job owns until it publishes it */
static bool published;                     /* finished = true was published; the buffer is no longer ours */
static unsigned pushes, waits;
static bool job_over;

static void main_interferes_thr(void)
{
	worker_state s = T.state;
	uint32_t k = nd_u32() % 4;
	if (job_over) T.state = THR_EXIT;
	else if (k == 1 && s == THR_RUN) T.state = THR_IDLE;      /* threads_stop() */
	else if (k == 2) T.state = THR_EXIT;                      /* threads_end() */
	if (T.state == THR_RUN) {
		size_t n = nd_size(); ASSUME(n >= T.in_filled && n <= T.in_size);
		T.in_filled = n;                                  /* more input arrived */
		if (T.partial_update == PARTIAL_DISABLED && nd_bool()) T.partial_update = PARTIAL_START;   /* became the head of the queue */
	}
}
static void main_interferes_coder(void)
{
	if (nd_bool()) C.threads_free = NULL;
	if (nd_bool() && C.thread_error == LZMA_OK) C.thread_error = LZMA_DATA_ERROR;   /* another worker's error */
}
static int v_mutex_lock(pthread_mutex_t *m)
{
	CHECK(!held_thr && !held_coder, "the worker never holds two mutexes");
	CHECK(!g_destroyed_mutex, "no use of a destroyed mutex");
	if (m == &T.mutex) {
		main_interferes_thr();
		held_thr = true; sig_thr = false;
		snap_state = T.state; snap_in_filled = T.in_filled; snap_in_size = T.in_size;
	} else {
		CHECK(m == &C.mutex, "only the thread's and the coder's mutex");
		main_interferes_coder();
		held_coder = true; sig_coder = false;
		snap_err = C.thread_error; snap_free = C.threads_free; snap_finished = OB.b.finished; snap_pos = OB.b.pos; snap_dip = OB.b.decoder_in_pos;
		snap_use = C.mem_in_use; snap_cached = C.mem_cached; snap_pin = C.progress_in; snap_pout = C.progress_out;
	}
	return 0;
}
static void guarantee_thr(void)
{
	CHECK(T.in_filled == snap_in_filled && T.in_size == snap_in_size, "the worker never changes in_filled / in_size (owned by the main thread)");
	if (T.state != snap_state)
		CHECK(T.state == THR_IDLE && snap_state == THR_RUN, "the worker only moves its state from RUN to IDLE and never overrides an EXIT request");
}
static void guarantee_coder(void)
{
	if (C.thread_error != snap_err) CHECK(snap_err == LZMA_OK && C.thread_error != LZMA_OK && C.thread_error != LZMA_STREAM_END, "only the first error is recorded");
	bool changed = C.thread_error != snap_err || C.threads_free != snap_free || OB.b.finished != snap_finished || OB.b.pos != snap_pos || OB.b.decoder_in_pos != snap_dip;
	if (changed) CHECK(sig_coder, "every change the main thread waits for is signalled on coder->cond in the same critical section (no lost wake-up)");
	if (changed && (OB.b.pos != snap_pos || OB.b.decoder_in_pos != snap_dip || OB.b.finished != snap_finished))
		CHECK(!published || (OB.b.finished && !snap_finished), "the output buffer is not touched after it was published as finished (it may already be recycled)");
	if (OB.b.finished && !snap_finished) {
		published = true;
		CHECK(OB.b.pos == T.out_pos && OB.b.decoder_in_pos == T.in_pos && OB.b.pos <= OB.b.allocated, "a finished buffer carries the final positions");
		CHECK(T.outbuf == NULL, "and the worker drops its reference");
		CHECK(T.state == THR_IDLE || T.state == THR_EXIT, "the buffer is published only after the worker left the RUN state");
	}
	if (C.threads_free != snap_free) {
		CHECK(C.threads_free == &T && T.next == snap_free, "the worker pushes exactly itself onto the free list");
		CHECK(OB.b.finished && OB.b.finish_ret == LZMA_STREAM_END, "only after a Block that ended successfully");
		CHECK(C.mem_in_use == snap_use - T.in_size - T.mem_filters && C.mem_cached == snap_cached + T.mem_filters, "memory accounting moves the filter memory from in-use to cached and releases the input buffer");
		++pushes;
	}
	if (OB.b.finished) job_over = true;
	CHECK(C.progress_in >= snap_pin && C.progress_out >= snap_pout, "progress totals never decrease");
}
static int v_mutex_unlock(pthread_mutex_t *m)
{
	if (m == &T.mutex) { CHECK(held_thr, "unlock of a held mutex"); guarantee_thr(); held_thr = false; }
	else { CHECK(held_coder, "unlock of a held mutex"); guarantee_coder(); held_coder = false; }
	return 0;
}
static int v_cond_wait(pthread_cond_t *c, pthread_mutex_t *m)
{
	CHECK(m == &T.mutex && c == &T.cond.cond && held_thr, "the worker waits only on its own condition with its own mutex held");
	/* going to sleep: whatever the main thread may look at must be up to date */
	if (T.state == THR_RUN && T.partial_update != PARTIAL_DISABLED && !published)
		CHECK(OB.b.pos == T.out_pos && OB.b.decoder_in_pos == T.in_pos, "with partial output enabled, the published output and input positions are current whenever the worker sleeps (the main thread detects a stalled Block by decoder_in_pos == in_filled)");
	++waits;
	v_mutex_unlock(m);
	v_mutex_lock(m);
	/* fairness: after two unproductive waits the main thread gives work, input, partial output, or ends the thread */
	if (waits >= 2) ASSUME(T.state == THR_EXIT || (T.state == THR_RUN && (T.in_filled != T.in_pos || T.partial_update == PARTIAL_START)));
	if (waits >= 4) ASSUME(T.state == THR_EXIT);
	return 0;
}
static int v_cond_signal(pthread_cond_t *c)
{
	if (c == &T.cond.cond) { CHECK(held_thr, "thr->cond signalled with thr->mutex held"); sig_thr = true; }
	else { CHECK(c == &C.cond.cond && held_coder, "coder->cond signalled with coder->mutex held"); sig_coder = true; }
	return 0;
}

void harness_worker_decoder(void)
{
	C.thread_error = nd_bool() ? LZMA_OK : LZMA_DATA_ERROR; C.threads_free = NULL;
	C.mem_in_use = (nd_u64() >> 16) + 4096; C.mem_cached = nd_u64() >> 16;
	C.progress_in = nd_u64() >> 8; C.progress_out = nd_u64() >> 8;
	T.coder = &C; T.allocator = NULL; T.in = inbuf; T.outbuf = &OB.b; T.next = NULL;
	T.in_size = INSZ; T.in_filled = nd_size(); T.in_pos = 0; T.out_pos = 0;
	ASSUME(T.in_filled <= INSZ);
	T.mem_filters = nd_u32() & 0xFFF;
	T.partial_update = nd_bool() ? PARTIAL_DISABLED : PARTIAL_START;
	T.block_decoder.code = &dec_code; T.block_decoder.coder = &dummy;
	T.block_options.uncompressed_size = nd_size() % (OUTSZ + 1);
	OB.b.allocated = OUTSZ; OB.b.pos = 0; OB.b.decoder_in_pos = 0; OB.b.finished = false; OB.b.finish_ret = LZMA_STREAM_END;
	T.state = nd_bool() ? THR_RUN : THR_IDLE;
	worker_decoder(&T);
	CHECK(!held_thr && !held_coder, "no mutex held when the thread exits");
	CHECK(T.state == THR_EXIT, "the thread function returns only on an EXIT request");
	CHECK(pushes <= 1, "at most one hand-over per Block");
	if (pushes == 1) WITNESS("Block finished and worker returned to the free list");
	if (published && OB.b.finish_ret != LZMA_STREAM_END) WITNESS("Block failed and the error was published");
	if (published) WITNESS("output buffer published");
}
