# C07 -- threaded decompression equivalent to single-threaded under every schedule (thread-modular part)
S = "src/liblzma/"
FL = ["--object-bits", "10"]
OBLIGATIONS = [
    Obligation(name="decoder_worker_rely_guarantee", src="worker.c", func="harness_worker_decoder", defs=["VLOOP_MEM"], unwind=5, units=[S + "common/common.c"], flags=FL, timeout_q=280, timeout_t=1800,
        hdefs=["lzma_free=vstub_free", "lzma_next_end=vstub_next_end"],
        fp_restrict=["worker_decoder.function_pointer_call.1/dec_code"], unwindset=[("worker_decoder", "^0", 7), ("worker_decoder", "^1", 7), ("worker_decoder", "^4", 5), ("worker_decoder", "^9", 4)],
        functions=["worker_decoder"],
        stubs=["pthread primitives = rely/guarantee stubs (lock/cond_wait let the main thread do anything its code allows: RUN->IDLE (stop), any->EXIT, in_filled grows up to in_size, partial output DISABLED->START, free list popped, another worker's error; unlock checks the worker's own changes and signal discipline)",
               "Block decoder = contract stub (consumes/produces arbitrary amounts, OK / STREAM_END exactly at the declared sizes / DATA_ERROR); fairness: after two unproductive waits the main thread supplies input, enables partial output, stops or ends the thread; bound: one Block, then EXIT"],
        desc="decoder worker thread for one Block from RUN or IDLE under every interference allowed by the rely: never holds two mutexes, waits only on its own condition, never changes in_filled/in_size, moves its state only RUN->IDLE and never overrides EXIT, publishes output/input positions under coder->mutex with a signal and keeps them CURRENT whenever it sleeps with partial output enabled (stall detection), publishes a finished buffer once with final positions after leaving RUN and never touches it again, records only the first error, returns to the free list only after a successfully finished Block with exact memory accounting, never uses its input buffer after freeing it, exits only on EXIT with no mutex held",
        bounds_q="one Block + exit; input 8 bytes, output 12 bytes; <= 3 decoder calls; <= 2 unproductive waits"),
]
OBLIGATIONS += reuse("C08", r"outq_")          # shared output queue: in-order delivery, accounting
OBLIGATIONS += [
    Obligation(name="decoder_mt_direct_mode_memory", src="mainside.c", func="harness_direct_mode_init", defs=["VLOOP_MEM"], unwind=5, units=[], flags=FL, timeout_q=280,
        replace_calls=[("read_output_and_wait", "vstub_row")],
        fp_restrict=["stream_decode_mt.function_pointer_call.1/blk_code"],
        unwindset=[("stream_decode_mt", "^0", 3)],
        functions=["stream_decode_mt", "threads_end", "lzma_outq_clear_cache"],
        stubs=["pthread primitives are no-ops (main thread alone: workers are idle or absent in this state); read_output_and_wait replaced by a stub (returns OK or an error); Block decoder init records the queue/thread state at the moment it is called"],
        desc="threaded .xz decoder falling back to single-threaded (direct) mode for a Block whose memory only fits the hard limit: the Block decoder is initialised only when the output queue is empty AND holds no cached buffer AND the worker threads are gone, so total memory = the filter memory that was compared with memlimit_stop",
        bounds_q="queue busy/idle x cached buffer present/absent x 0-1 worker threads"),
]
