# C19 -- naming, overwrite protection, metadata
exec(open(__file__.replace("C19/obl.py", "C17/obl.py")).read().split("OBLIGATIONS = [")[0])
COMMON = dict(src="../C17/fio.c", lib="xz", qdefs=["SMALL_IOBUF"], tdefs=[], unwind=8, stubs=FIO_STUBS[:4],
              unwindset=[("io_read", "", 6), ("io_wait", "", 5), ("io_write_buf", "", 6)], flags=["--object-bits", "10"])
OBLIGATIONS = [
    Obligation(name="open_src_rules", func="harness_open_src", functions=["io_open_src", "io_open_src_real", "io_wait"],
        desc="for an ARBITRARY struct stat returned by fstat() and every flag combination: a source is accepted only if it is not a directory; without --stdout only regular files; without --force/--keep/--stdout no setuid/setgid/sticky and no extra hard links; open() carries O_NOFOLLOW exactly when none of --stdout/--force/--keep is given; a refused source is closed again",
        bounds_q="all mode/nlink values, all option combinations", **COMMON),
    Obligation(name="open_dest_rules", func="harness_open_dest", functions=["io_open_dest", "io_open_dest_real"],
        desc="target creation: open() always has O_CREAT|O_EXCL|O_WRONLY and mode 0600; an existing file with the target name is unlinked only with --force and otherwise left alone (EEXIST); failure leaves no descriptor open",
        bounds_q="all option combinations, target existing or not, every system-call result", **COMMON),
    Obligation(name="copy_attrs_rules", func="harness_copy_attrs", functions=["io_copy_attrs"],
        desc="for arbitrary source/target stat data and fchown/fchmod/futimens results: fchmod mode has no setuid/setgid/sticky, is never broader than the source's permission bits, equals them when the group could be set and otherwise gives group/other only the bits both had; owner/group/timestamps passed are the source's",
        bounds_q="all mode/uid/gid/time values", **COMMON),
]
