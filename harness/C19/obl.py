# C19 -- naming, overwrite protection, metadata
exec(open(__file__.replace("C19/obl.py", "C17/obl.py")).read().split("OBLIGATIONS = [")[0])
COMMON = dict(src="../C17/fio.c", lib="xz", qdefs=["SMALL_IOBUF"], tdefs=[], unwind=8, stubs=FIO_STUBS[:4],
              unwindset=[("io_read", "", 6), ("io_wait", "", 5), ("io_write_buf", "", 6)], flags=["--object-bits", "10"])
OBLIGATIONS = [
    Obligation(name="open_src_rules", func="harness_open_src", functions=["io_open_src", "io_open_src_real", "io_wait"],
        desc="for an ARBITRARY struct stat returned by fstat() and every flag combination: a source is accepted only if it is not a directory; without --stdout only regular files; without --force/--keep/--stdout no setuid/setgid/sticky and no extra hard links; open() carries O_NOFOLLOW exactly when none of --stdout/--force/--keep is given; a refused source is closed again",
        bounds_q="all mode/nlink values, all option combinations", **COMMON),
    Obligation(name="open_dest_rules", func="harness_open_dest", functions=["io_open_dest", "io_open_dest_real"],
        desc="target creation: open() always has O_CREAT|O_EXCL|O_WRONLY and mode 0600; an existing file with the target name is unlinked only with --force and otherwise left alone (EEXIST); failure leaves no descriptor open",
        bounds_q="all option combinations, target existing or not, every system-call result", **COMMON),
    Obligation(name="copy_attrs_rules", func="harness_copy_attrs", functions=["io_copy_attrs"],
        desc="for arbitrary source/target stat data and fchown/fchmod/futimens results: fchmod mode has no setuid/setgid/sticky, is never broader than the source's permission bits, equals them when the group could be set and otherwise gives group/other only the bits both had; owner/group/timestamps passed are the source's",
        bounds_q="all mode/uid/gid/time values", **COMMON),
]
SUF = dict(src="sfx.c", lib="xz", qdefs=["LNAME=6"], tdefs=["LNAME=9"], qunwind=12, tunwind=15, flags=["--object-bits", "10"],
           stubs=["message_warning/message_fatal: counters; xmalloc/xstrdup: malloc that succeeds; tuklib_mask_nonprint: identity"],
           timeout_q=280, timeout_t=1800)
OBLIGATIONS += [
    Obligation(name="suffix_test_suffix", func="harness_test_suffix", functions=["test_suffix", "is_dir_sep"],
        desc="test_suffix(suffix, name) for every name (any bytes incl. '/') and suffix: matches exactly when the name ends with the suffix, is longer than it, and the character before the suffix is not a directory separator",
        bounds_q="names <= 6 bytes (quick) / 9 (thorough), suffix 1..3 bytes", **SUF),
    Obligation(name="suffix_name_roundtrip", func="harness_name_roundtrip", functions=["suffix_get_dest_name", "compressed_name", "uncompressed_name", "test_suffix", "suffix_set"],
        desc="for every name, format (xz, lzma, raw with -S) and custom suffix: compressing is refused exactly when the name already carries the target suffix; otherwise target = name + suffix, and decompressing that target maps back to the original name, except where the produced name ends in a built-in suffix that takes precedence (documented)",
        bounds_q="names <= 6 bytes, custom suffix 1..3 bytes", **SUF),
    Obligation(name="suffix_uncompressed_name", func="harness_uncompressed_name", functions=["uncompressed_name", "test_suffix"],
        desc="decompression naming equals the spec table (.xz .txz->.tar .lzma .tlz->.tar .lz, then custom suffix; none in raw mode): skipped with a warning exactly when no known suffix, at least one file-name character remains",
        bounds_q="names <= 6 bytes, custom suffix 1..3 bytes", **SUF),
    Obligation(name="suffix_set_validation", func="harness_suffix_set", functions=["suffix_set", "has_dir_sep"],
        desc="--suffix is rejected exactly when empty or containing '/'", bounds_q="suffix <= 3 bytes", **SUF),
]
