/*
 * C19: real src/xz/suffix.c (test_suffix, compressed_name, uncompressed_name,
 * suffix_get_dest_name, suffix_set) for symbolic file names and custom suffixes.
 */
#include "vcommon.h"
#include <stdio.h>
#include <string.h>
#include "suffix.c"    /* first: private.h and friends have no include guards */

static unsigned n_warn, n_fatal;
void message_warning(const char *fmt, ...) { (void)fmt; ++n_warn; }
void message_fatal(const char *fmt, ...) { (void)fmt; ++n_fatal; }
const char *tuklib_mask_nonprint(const char *s) { return s; }
const char *tuklib_mask_nonprint_r(const char *s, char **mem) { (void)mem; return s; }
void *xrealloc(void *ptr, size_t size) { (void)ptr; void *p = malloc(size ? size : 1); VMALLOC_NONNULL(p); return p; }
char *xstrdup(const char *s) { size_t n = strlen(s) + 1; char *p = xrealloc(NULL, n); memcpy(p, s, n); return p; }

enum operation_mode opt_mode;
enum format_type opt_format;

#ifndef LNAME
#define LNAME 6
#endif
#define LSUF 3

static size_t mk_string(char *buf, size_t maxlen, bool allow_slash)
{
	size_t len = nd_size();
	ASSUME(len <= maxlen);
	for (size_t i = 0; i < maxlen; ++i) {
		char c = (char)nd_u8();
		if (i < len) {
			ASSUME(c != 0);
			if (!allow_slash) ASSUME(c != '/');
			buf[i] = c;
		} else {
			buf[i] = 0;
		}
	}
	buf[maxlen] = 0;
	return len;
}

/* spec: does `name` (length len) carry suffix `suf`?  At least one character of the
 * file name proper (not a directory separator) must precede it. */
static bool spec_has_suffix(const char *name, size_t len, const char *suf)
{
	size_t sl = strlen(suf);
	if (len <= sl) return false;
	if (name[len - sl - 1] == '/') return false;
	for (size_t i = 0; i < sl; ++i)
		if (name[len - sl + i] != suf[i]) return false;
	return true;
}

/* test_suffix against the spec */
void harness_test_suffix(void)
{
	char name[LNAME + 1], suf[LSUF + 1];
	size_t len = mk_string(name, LNAME, true);
	size_t sl = mk_string(suf, LSUF, false);
	ASSUME(sl >= 1);
	size_t r = test_suffix(suf, name, len);
	bool has = spec_has_suffix(name, len, suf);
	CHECK((r != 0) == has, "a suffix matches exactly when it ends the name and a non-separator character precedes it");
	if (has) { CHECK(r == len - sl, "length of the name without the suffix"); WITNESS("suffix matched"); }
	if (len > sl && name[len - sl - 1] == '/') WITNESS("name whose last component is only the suffix");
}

static const char *const builtin[] = { ".xz", ".txz", ".lzma", ".tlz", ".lz" };

/* compress then decompress the NAME */
void harness_name_roundtrip(void)
{
	char name[LNAME + 1], suf[LSUF + 1];
	size_t len = mk_string(name, LNAME, true);
	ASSUME(len >= 1);
	ASSUME(name[len - 1] != '/');   /* a path naming a file has a non-empty last component */
	bool custom = nd_bool();
	if (custom) {
		size_t sl = mk_string(suf, LSUF, false);
		ASSUME(sl >= 1);
		suffix_set(suf);
		CHECK(n_fatal == 0, "a non-empty suffix without a directory separator is accepted");
	}
	unsigned f = nd_u32() % 3;
	opt_format = f == 0 ? FORMAT_XZ : f == 1 ? FORMAT_LZMA : FORMAT_RAW;
	ASSUME(opt_format != FORMAT_RAW || custom);   /* args.c: raw format needs --suffix unless writing to stdout */
	opt_mode = MODE_COMPRESS;
	unsigned w0 = n_warn;
	char *c = suffix_get_dest_name(name);
	/* names that already carry the target suffix are refused, and only those */
	bool carries = false;
	if (opt_format == FORMAT_XZ) carries = spec_has_suffix(name, len, ".xz") || spec_has_suffix(name, len, ".txz");
	if (opt_format == FORMAT_LZMA) carries = spec_has_suffix(name, len, ".lzma") || spec_has_suffix(name, len, ".tlz");
	if (custom) carries = carries || spec_has_suffix(name, len, suf);
	CHECK((c == NULL) == carries, "compressing is refused exactly when the name already carries the target suffix");
	if (c == NULL) { CHECK(n_warn == w0 + 1, "refusal is a warning"); WITNESS("refused: already has suffix"); return; }
	const char *tsuf = custom ? suf : (opt_format == FORMAT_XZ ? ".xz" : ".lzma");
	size_t clen = strlen(c);
	CHECK(clen == len + strlen(tsuf) && memcmp(c, name, len) == 0 && strcmp(c + len, tsuf) == 0, "target name = source name + suffix");
	opt_mode = MODE_DECOMPRESS;
	char *u = suffix_get_dest_name(c);
	CHECK(u != NULL, "the name xz produced is recognised when decompressing");
	if (u != NULL) {
		/* documented precedence: if the produced name happens to end in a built-in suffix
		 * (custom suffix spelling/being one), the built-in rule wins */
		bool builtin_wins = false;
		if (custom && opt_format != FORMAT_RAW)
			for (unsigned k = 0; k < 5; ++k)
				if (spec_has_suffix(c, clen, builtin[k]) && strcmp(builtin[k], suf) != 0)
					builtin_wins = true;
		if (custom && opt_format != FORMAT_RAW && (strcmp(suf, ".txz") == 0 || strcmp(suf, ".tlz") == 0))
			builtin_wins = true;   /* these map to .tar by definition */
		if (!builtin_wins) {
			CHECK(strcmp(u, name) == 0, "decompressing maps the name back to the original");
			WITNESS("name round trip");
		} else {
			WITNESS("built-in suffix precedence case");
		}
		CHECK(strlen(u) >= 1, "at least one character remains");
		free(u);
	}
	free(c);
}

/* decompression naming against the spec table */
void harness_uncompressed_name(void)
{
	char name[LNAME + 1], suf[LSUF + 1];
	size_t len = mk_string(name, LNAME, true);
	bool custom = nd_bool();
	if (custom) { size_t sl = mk_string(suf, LSUF, false); ASSUME(sl >= 1); suffix_set(suf); }
	unsigned f = nd_u32() % 4;
	opt_format = f == 0 ? FORMAT_XZ : f == 1 ? FORMAT_LZMA : f == 2 ? FORMAT_RAW : FORMAT_AUTO;
	opt_mode = MODE_DECOMPRESS;
	char *u = suffix_get_dest_name(name);
	/* spec: first matching of .xz .txz .lzma .tlz .lz (not in raw mode), then the custom suffix */
	const char *strip = NULL, *add = "";
	if (opt_format != FORMAT_RAW) {
		if (spec_has_suffix(name, len, ".xz")) { strip = ".xz"; }
		else if (spec_has_suffix(name, len, ".txz")) { strip = ".txz"; add = ".tar"; }
		else if (spec_has_suffix(name, len, ".lzma")) { strip = ".lzma"; }
		else if (spec_has_suffix(name, len, ".tlz")) { strip = ".tlz"; add = ".tar"; }
		else if (spec_has_suffix(name, len, ".lz")) { strip = ".lz"; }
	}
	if (strip == NULL && custom && spec_has_suffix(name, len, suf)) strip = suf;
	CHECK((u == NULL) == (strip == NULL), "a name is skipped exactly when it carries no known suffix");
	if (u != NULL) {
		size_t base = len - strlen(strip);
		CHECK(strlen(u) == base + strlen(add) && memcmp(u, name, base) == 0 && strcmp(u + base, add) == 0,
			"target = name without the suffix (+ .tar for .txz/.tlz)");
		CHECK(base >= 1 && name[base - 1] != '/', "at least one character of the file name remains");
		if (add[0]) WITNESS(".txz/.tlz case");
		free(u);
	} else {
		WITNESS("unknown suffix skipped");
	}
}

void harness_suffix_set(void)
{
	char suf[LSUF + 1];
	size_t sl = mk_string(suf, LSUF, true);
	bool bad = sl == 0;
	for (size_t i = 0; i < LSUF; ++i) if (i < sl && suf[i] == '/') bad = true;
	suffix_set(suf);
	CHECK((n_fatal != 0) == bad, "--suffix is rejected exactly when empty or containing a directory separator");
	if (bad) WITNESS("rejected"); else { CHECK(suffix_is_set(), "suffix stored"); WITNESS("accepted"); }
}
