/*
 * C17 / C18 / C19: the real src/xz/file_io.c with EVERY system call replaced by a
 * nondeterministic stub and a ghost file system that records what happened to the source
 * and target files.  A signal may arrive before any system call (user_abort becomes 1
 * inside any stub), calls may fail with arbitrary errno values (incl. EINTR/EAGAIN) or
 * return short counts.
 */
#include "vcommon.h"
#include <sys/types.h>
#include <sys/stat.h>
#include <fcntl.h>
#include <unistd.h>
#include <errno.h>
#include <poll.h>
#include <libgen.h>
#include <stdio.h>
#include <signal.h>
#include <limits.h>
#include <stdarg.h>

#ifdef SMALL_IOBUF
/* file_io.h derives IO_BUFFER_SIZE from BUFSIZ ((BUFSIZ & ~7U) when BUFSIZ > 1024): use a
 * system with BUFSIZ = 1032 for the quick tier (129 words per buffer instead of 1024). */
#undef BUFSIZ
#define BUFSIZ 1032
#endif

/* ---- route the system calls made by file_io.c to the stubs (function-like macros so that
 * `struct stat` is not touched) ---- */
#define open(...) v_open(__VA_ARGS__)
#define close(fd) v_close(fd)
#define read(fd, b, n) v_read(fd, b, n)
#define write(fd, b, n) v_write(fd, b, n)
#define lseek(fd, o, w) v_lseek(fd, o, w)
#define fsync(fd) v_fsync(fd)
#define fstat(fd, st) v_fstat(fd, st)
#define lstat(p, st) v_lstat(p, st)
#define stat(p, st) v_stat(p, st)
#define unlink(p) v_unlink(p)
#define fchown(fd, u, g) v_fchown(fd, u, g)
#define fchmod(fd, m) v_fchmod(fd, m)
#define futimens(fd, t) v_futimens(fd, t)
#define fcntl(...) v_fcntl(__VA_ARGS__)
#define poll(p, n, t) v_poll(p, n, t)
#define pipe(p) v_pipe(p)
#define posix_fadvise(fd, a, b, c) v_posix_fadvise(fd, a, b, c)
#define geteuid() v_geteuid()
#define dirname(p) v_dirname(p)
#define strerror(e) "error"

static int v_open(const char *path, int flags, ...);
static int v_close(int fd);
static ssize_t v_read(int fd, void *buf, size_t n);
static ssize_t v_write(int fd, const void *buf, size_t n);
static off_t v_lseek(int fd, off_t off, int whence);
static int v_fsync(int fd);
static int v_fstat(int fd, struct stat *st);
static int v_lstat(const char *p, struct stat *st);
static int v_stat(const char *p, struct stat *st);
static int v_unlink(const char *p);
static int v_fchown(int fd, uid_t u, gid_t g);
static int v_fchmod(int fd, mode_t m);
static int v_futimens(int fd, const struct timespec t[2]);
static int v_fcntl(int fd, int cmd, ...);
static int v_poll(struct pollfd *p, nfds_t n, int t);
static int v_pipe(int p[2]);
static int v_posix_fadvise(int fd, off_t a, off_t b, int c);
static uid_t v_geteuid(void);
static char *v_dirname(char *p);

#include "file_io.c"

/* ---- xz globals and internal functions file_io.c needs ---- */
bool opt_stdout, opt_force, opt_keep_original, opt_synchronous, opt_robot;
const char stdin_filename[] = "(stdin)";
enum operation_mode opt_mode;
volatile sig_atomic_t user_abort;

static unsigned n_errors, n_warnings;
void message_error(const char *fmt, ...) { (void)fmt; ++n_errors; }
void message_warning(const char *fmt, ...) { (void)fmt; ++n_warnings; }
void message_fatal(const char *fmt, ...) { (void)fmt; ASSUME(0); }
void message_bug(void) { CHECK(0, "message_bug() reached"); ASSUME(0); }
const char *tuklib_mask_nonprint(const char *s) { return s; }
static bool g_signals_blocked;
void signals_block(void) { g_signals_blocked = true; }
void signals_unblock(void) { g_signals_blocked = false; }
int mytime_get_flush_timeout(void) { return (int)(nd_u32() & 0xFFFF); }
void mytime_set_flush_time(void) {}
char *xstrdup(const char *s) { (void)s; char *p = malloc(8); VMALLOC_NONNULL(p); p[0] = 'd'; p[1] = 0; return p; }

/* ---- ghost file system ---- */
#define FD_SRC 3
#define FD_DEST 4
#define FD_DIR 5
static const char SRC_NAME[] = "src";
static char *g_dest_name;              /* what suffix_get_dest_name returned */
static bool g_src_exists = true, g_src_open, g_src_closed;
static struct stat g_src_st;           /* what fstat(src) reported */
static bool g_dest_exists_before;      /* a file with the target name existed before xz ran */
static bool g_dest_created;            /* created by THIS run (O_CREAT|O_EXCL succeeded) */
static bool g_dest_exists;             /* target name currently exists */
static bool g_dest_open, g_dest_close_ok, g_dest_close_called;
static bool g_dir_open;
static int g_open_dest_flags; static mode_t g_open_dest_mode;
static int g_open_src_flags;
static bool g_fsync_file_ok, g_fsync_dir_ok;
static bool g_fchmod_called; static mode_t g_fchmod_mode;
static bool g_futimens_called; static struct timespec g_times[2];
static bool g_unlinked_preexisting_dest;
static bool g_last_src_check_matched;  /* the most recent stat/lstat of the source name matched dev/ino */
static bool g_signal_seen;             /* user_abort was raised at some point */
/* byte accounting for the target */
static uint64_t g_off;                 /* current file offset of the target fd */
static uint64_t g_size;                /* current size of the target file */
static uint64_t g_expected;            /* bytes the coder asked io_write to store (all accepted calls) */
static bool g_write_failed;            /* some io_write returned error */
static bool g_nonzero_lost;            /* a range that was skipped by lseek was not all-zero */
static uint64_t g_holes;               /* bytes skipped by seeking */
static uint64_t g_base;                /* offset of the target fd when xz started writing */
static bool g_is_stdout_regular;
static int g_stdout_flags0; static int g_stdout_flags_now; static bool g_stdout_flags_changed; static int g_stdout_last_set_attempt;

/* a signal may be delivered before any system call */
static void maybe_signal(void)
{
	/* signals are delivered only while they are unblocked */
	if (!g_signals_blocked && nd_bool()) { user_abort = 1; g_signal_seen = true; }
}
/* crash-point invariant: checked on entry of every system call: if the process died right
 * here, the user's data still exists somewhere complete */
static bool h_coder_success;   /* what the harness (the coder) told io_close() */
static bool h_in_close;
/* the target holds all the data: the coder succeeded, every accepted io_write was fully
 * acknowledged and the file extends over every byte handed to io_write (a trailing hole
 * has been materialised) */
static bool dest_complete(void)
{
	return h_coder_success && !g_write_failed && g_dest_created && g_size == g_base + g_expected;
}
static void crash_point(void)
{
	CHECK(g_src_exists || (g_dest_exists && dest_complete() && g_dest_close_ok),
		"at every system call boundary the source exists or a complete, closed target exists");
}
#define SYS_ENTER() do { crash_point(); maybe_signal(); } while (0)
/* Fairness bound: the environment may answer with a "try again" outcome (EINTR, EAGAIN, a
 * short count, a poll() round without an event) at most RETRY_BUDGET times per run; after
 * that every call completes or fails hard.  Without it the retry loops of io_read /
 * io_write_buf / io_wait are legitimately unbounded.  Stated bound of the obligations. */
#ifndef RETRY_BUDGET
#define RETRY_BUDGET 2
#endif
static unsigned g_retries;
static bool may_retry(void)
{
	if (g_retries >= RETRY_BUDGET) return false;
	if (!nd_bool()) return false;
	++g_retries;
	return true;
}
static bool g_hard_fail;   /* some system call failed for good (not a try-again outcome) */
static int fail_hard(void)
{
	g_hard_fail = true;
	int e = nd_int();
	ASSUME(e > 0 && e < 134 && e != EINTR && e != EAGAIN && e != EWOULDBLOCK);
	errno = e;
	return -1;
}
static int fail_errno(void)
{
	g_hard_fail = true;
	int e = nd_int();
	ASSUME(e > 0 && e < 134);
	errno = e;
	return -1;
}

char *suffix_get_dest_name(const char *src_name)
{
	(void)src_name;
	if (nd_bool()) return NULL;   /* unknown suffix etc. */
	g_dest_name = malloc(8);
	VMALLOC_NONNULL(g_dest_name);
	g_dest_name[0] = 't'; g_dest_name[1] = 0;
	return g_dest_name;
}

static int v_open(const char *path, int flags, ...)
{
	SYS_ENTER();
	if (path == SRC_NAME) {
		g_open_src_flags = flags;
		if (nd_bool()) return fail_hard();   /* signals are blocked: no EINTR */
		CHECK(g_src_exists, "source opened while it exists");
		g_src_open = true;
		return FD_SRC;
	}
	if (g_dest_name != NULL && path == g_dest_name) {
		va_list ap; va_start(ap, flags);
		g_open_dest_mode = (mode_t)va_arg(ap, int);
		va_end(ap);
		g_open_dest_flags = flags;
		/* O_CREAT|O_EXCL semantics: fails if the name exists */
		if (g_dest_exists && (flags & O_EXCL)) { errno = EEXIST; return -1; }
		if (nd_bool()) return fail_errno();
		if (g_dest_exists) g_unlinked_preexisting_dest = true; /* opened existing file without O_EXCL */
		g_dest_created = true; g_dest_exists = true; g_dest_open = true;
		g_off = 0; g_size = 0; g_base = 0;
		return FD_DEST;
	}
	/* directory of the target (opt_synchronous) */
	if (nd_bool()) return fail_errno();
	g_dir_open = true;
	return FD_DIR;
}
static int v_close(int fd)
{
	SYS_ENTER();
	if (fd == FD_SRC) { CHECK(g_src_open, "close(src) on an open fd"); g_src_open = false; g_src_closed = true; return nd_bool() ? fail_errno() : 0; }
	if (fd == FD_DIR) { CHECK(g_dir_open, "close(dir) on an open fd"); g_dir_open = false; return 0; }
	CHECK(fd == FD_DEST && g_dest_open, "close(dest) exactly once on the open target fd");
	g_dest_open = false; g_dest_close_called = true;
	if (nd_bool()) { g_dest_close_ok = false; return fail_errno(); }
	g_dest_close_ok = true;
	return 0;
}
static bool g_read_zero;
static ssize_t v_read(int fd, void *buf, size_t n)
{
	SYS_ENTER();
	CHECK(fd == FD_SRC || fd == STDIN_FILENO, "read from the source fd");
	(void)buf;
	if (may_retry()) {
		if (nd_bool()) { errno = nd_bool() ? EINTR : EAGAIN; return -1; }
		size_t k = nd_size();
		ASSUME(k >= 1 && k < n);   /* short count */
		return (ssize_t)k;
	}
	if (nd_bool()) return fail_hard();
	if (nd_bool()) { g_read_zero = true; return 0; }   /* end of file */
	return (ssize_t)n;
}
static void track_write(const uint8_t *buf, size_t n);
static void track_hole(uint64_t len);
/* the buffer io_write was handed for the current call (to attribute bytes) */
static const uint8_t *g_cur_buf; static size_t g_cur_size; static bool g_cur_allzero;
static ssize_t v_write(int fd, const void *buf, size_t n)
{
	SYS_ENTER();
	CHECK(fd == FD_DEST || fd == STDOUT_FILENO, "write to the target fd");
	CHECK(n > 0, "no zero-length writes");
	size_t k = n;
	if (may_retry()) {
		if (nd_bool()) { errno = nd_bool() ? EINTR : EAGAIN; return -1; }
		k = nd_size();
		ASSUME(k >= 1 && k <= n);     /* short count */
	} else if (nd_bool()) {
		return fail_hard();
	}
#ifdef TRACK_EXTENTS
	track_write((const uint8_t *)buf, n);
#else
	(void)buf;
#endif
	g_off += k;
	if (g_off > g_size) g_size = g_off;
	return (ssize_t)k;
}
static off_t v_lseek(int fd, off_t off, int whence)
{
	SYS_ENTER();
	if (fd == FD_SRC || fd == STDIN_FILENO)
		return nd_bool() ? (off_t)fail_errno() : 0;
	CHECK(fd == FD_DEST || fd == STDOUT_FILENO, "lseek on the target fd");
	if (nd_bool()) return (off_t)fail_errno();
	if (whence == SEEK_CUR) {
		CHECK(off >= 0, "sparse seeks never go backwards");
#ifdef TRACK_EXTENTS
		track_hole((uint64_t)off);
#endif
		g_off += (uint64_t)off;
		g_holes += (uint64_t)off;
		return (off_t)g_off;
	}
	if (whence == SEEK_END) { g_off = g_size; g_base = g_size; return (off_t)g_off; }
	return (off_t)g_off;
}
static int v_fsync(int fd)
{
	SYS_ENTER();
	if (nd_bool()) return fail_errno();
	if (fd == FD_DEST) g_fsync_file_ok = true;
	else if (fd == FD_DIR) g_fsync_dir_ok = true;
	else CHECK(0, "fsync only on the target and its directory");
	return 0;
}
static void havoc_stat(struct stat *st)
{
	memset(st, 0, sizeof(*st));
	st->st_mode = nd_u32(); st->st_nlink = nd_u32() & 0xFF; st->st_uid = nd_u32(); st->st_gid = nd_u32();
	ASSUME(st->st_uid != (uid_t)(-1) && st->st_gid != (gid_t)(-1));   /* -1 is not a valid id (it means "leave unchanged") */
	st->st_dev = nd_u32() & 3; st->st_ino = nd_u32() & 3; st->st_size = (off_t)(nd_u64() & 0xFFFFFFFFFFull);
	st->st_atim.tv_sec = nd_u32(); st->st_atim.tv_nsec = nd_u32() % 1000000000u;
	st->st_mtim.tv_sec = nd_u32(); st->st_mtim.tv_nsec = nd_u32() % 1000000000u;
}
static struct stat g_dest_st; static bool g_dest_st_known;
static bool g_dest_moved;   /* the re-check of the target name failed or found another file */
static int v_fstat(int fd, struct stat *st)
{
	SYS_ENTER();
	if (nd_bool()) return fail_errno();
	havoc_stat(st);
	if (fd == FD_SRC) g_src_st = *st;
	else if (fd == FD_DEST) { st->st_mode = (st->st_mode & ~S_IFMT) | S_IFREG; g_dest_st = *st; g_dest_st_known = true; }
	else if (fd == STDOUT_FILENO) { g_is_stdout_regular = S_ISREG(st->st_mode); g_size = (uint64_t)st->st_size; g_dest_st = *st; }
	return 0;
}
static int path_stat(const char *p, struct stat *st)
{
	SYS_ENTER();
	if (nd_bool()) { if (p == SRC_NAME) g_last_src_check_matched = false; else g_dest_moved = true; return fail_errno(); }
	havoc_stat(st);
	if (p == SRC_NAME) {
		/* the name may now refer to the same file or to another one */
		if (nd_bool()) { st->st_dev = g_src_st.st_dev; st->st_ino = g_src_st.st_ino; }
		g_last_src_check_matched = st->st_dev == g_src_st.st_dev && st->st_ino == g_src_st.st_ino;
	} else if (g_dest_name != NULL && p == g_dest_name) {
		if (nd_bool()) { st->st_dev = g_dest_st.st_dev; st->st_ino = g_dest_st.st_ino; }
		g_dest_moved = !(st->st_dev == g_dest_st.st_dev && st->st_ino == g_dest_st.st_ino);
	}
	return 0;
}
static int v_lstat(const char *p, struct stat *st) { return path_stat(p, st); }
static int v_stat(const char *p, struct stat *st) { return path_stat(p, st); }

static bool g_src_unlinked, g_dest_unlink_attempted;
static int v_unlink(const char *p)
{
	SYS_ENTER();
	if (p == SRC_NAME) {
		/* ---- the central safety property: checked at the moment of the call ---- */
		CHECK(h_in_close && h_coder_success, "source removed only after the coder reported success");
		CHECK(!g_write_failed, "source removed only if every write was fully acknowledged");
		CHECK(!opt_keep_original, "source never removed with --keep");
		CHECK(!opt_stdout, "source never removed with --stdout");
		CHECK(g_dest_created && g_dest_exists, "source removed only if the target file exists");
		CHECK(g_dest_close_called && g_dest_close_ok, "source removed only after the target was closed without error");
		CHECK(!opt_synchronous || (g_fsync_file_ok && g_fsync_dir_ok), "source removed only after file and directory were synchronised (unless --no-sync)");
		CHECK(dest_complete(), "source removed only when the target holds all the data (incl. a trailing sparse hole)");
		CHECK(g_fchmod_called, "source removed only after the target's metadata was set");
		CHECK(g_last_src_check_matched, "source removed only if the name still refers to the file that was opened (dev/ino re-check)");
		CHECK(g_src_closed, "source fd closed before removal");
		if (nd_bool()) return fail_errno();
		g_src_exists = false; g_src_unlinked = true;
		return 0;
	}
	CHECK(g_dest_name != NULL && p == g_dest_name, "unlink only of the source or the target name");
	if (g_dest_created) {
		g_dest_unlink_attempted = true;
	} else {
		/* removing a file xz did not create: only with --force, before creating the target */
		CHECK(opt_force, "an existing target is removed only with --force");
		g_unlinked_preexisting_dest = true;
	}
	if (nd_bool()) return fail_errno();
	g_dest_exists = false;
	return 0;
}
static uid_t g_fchown_uid; static gid_t g_fchown_gid; static bool g_fchown_gid_failed, g_fchown_gid_called;
static int v_fchown(int fd, uid_t u, gid_t g)
{
	SYS_ENTER();
	CHECK(fd == FD_DEST, "fchown on the target");
	if (g != (gid_t)(-1)) { g_fchown_gid_called = true; g_fchown_gid = g; }
	if (u != (uid_t)(-1)) g_fchown_uid = u;
	if (nd_bool()) { if (g != (gid_t)(-1)) g_fchown_gid_failed = true; return fail_errno(); }
	return 0;
}
static int v_fchmod(int fd, mode_t m)
{
	SYS_ENTER();
	CHECK(fd == FD_DEST, "fchmod on the target");
	g_fchmod_called = true; g_fchmod_mode = m;
	return nd_bool() ? fail_errno() : 0;
}
static int v_futimens(int fd, const struct timespec t[2])
{
	SYS_ENTER();
	CHECK(fd == FD_DEST, "futimens on the target");
	g_futimens_called = true; g_times[0] = t[0]; g_times[1] = t[1];
	return nd_bool() ? fail_errno() : 0;
}
static int v_fcntl(int fd, int cmd, ...)
{
	SYS_ENTER();
	if (cmd == F_GETFL) {
		if (nd_bool()) return fail_errno();
		int fl = nd_int() & (O_APPEND | O_NONBLOCK | O_WRONLY);
		if (fd == STDOUT_FILENO) { g_stdout_flags0 = fl; g_stdout_flags_now = fl; }
		return fl;
	}
	if (cmd == F_SETFL) {
		va_list ap; va_start(ap, cmd); int fl = va_arg(ap, int); va_end(ap);
		if (fd == STDOUT_FILENO) g_stdout_last_set_attempt = fl;
		if (nd_bool()) return fail_errno();
		if (fd == STDOUT_FILENO) { g_stdout_flags_now = fl; g_stdout_flags_changed = true; }
		return 0;
	}
	return 0;
}
static int v_poll(struct pollfd *p, nfds_t n, int t)
{
	SYS_ENTER();
	(void)n;
	p[0].revents = 0; p[1].revents = 0;
	if (may_retry()) {
		if (nd_bool()) { errno = nd_bool() ? EINTR : EAGAIN; return -1; }
		p[1].revents = POLLIN;   /* only the self-pipe is readable */
		return 1;
	}
	if (nd_bool()) return fail_hard();
	if (t >= 0 && nd_bool()) return 0;     /* timeout (impossible with an infinite timeout) */
	p[0].revents = POLLIN | POLLOUT;
	return 1;
}
static int v_pipe(int p[2]) { p[0] = 6; p[1] = 7; return 0; }
static int v_posix_fadvise(int fd, off_t a, off_t b, int c) { (void)fd; (void)a; (void)b; (void)c; return 0; }
static uid_t v_geteuid(void) { return nd_u32(); }
static char *v_dirname(char *p) { return p; }

/* ------------------------------------------------------------------------------------- */
static io_buf h_buf;

#ifndef NWRITES
#define NWRITES 2
#endif

static void set_options(void)
{
	opt_stdout = nd_bool(); opt_force = nd_bool(); opt_keep_original = nd_bool();
	opt_synchronous = nd_bool();
	/* postconditions of args.c (parse_real / args_parse): --stdout implies --keep, and
	 * --keep disables syncing */
	ASSUME(!opt_stdout || opt_keep_original);
	ASSUME(!opt_keep_original || !opt_synchronous);
	opt_mode = nd_bool() ? MODE_COMPRESS : MODE_DECOMPRESS;
	try_sparse = nd_bool();
	warn_fchown = nd_bool();
	g_dest_exists_before = nd_bool();
	g_dest_exists = g_dest_exists_before;
}

/* logical contents handed to io_write: up to NWRITES buffers; each is all-zero or has one
 * non-zero byte at a symbolic position */
static uint64_t b_start[NWRITES + 1]; static size_t b_size[NWRITES + 1]; static bool b_zero[NWRITES + 1];
static unsigned b_n;
static size_t fill_buf(void)
{
	size_t n = nd_bool() ? IO_BUFFER_SIZE : (size_t)(nd_u32() % IO_BUFFER_SIZE);
	memset(&h_buf, 0, sizeof(h_buf));
	bool zero = nd_bool();
	if (!zero) {
		size_t pos = nd_size();
		ASSUME(pos < IO_BUFFER_SIZE);
		h_buf.u8[pos] = 1 + (nd_u8() % 255);
		if (pos >= n) zero = true;   /* the non-zero byte lies outside the data */
	}
	b_zero[b_n] = zero; b_size[b_n] = n; b_start[b_n] = g_expected;
	return n;
}

/* C17: whole life cycle of one file: open source, open target, some reads/writes, close */
void harness_lifecycle(void)
{
	set_options();
	file_pair *pair = io_open_src(SRC_NAME);
	if (pair == NULL) {
		CHECK(!g_dest_created && g_src_exists, "failed open: nothing created, source untouched");
		CHECK(!g_src_open, "failed open leaves no open source fd");
		return;
	}
	CHECK(g_src_open, "source open after io_open_src");
	bool success = false;
	if (!user_abort && nd_bool() /* coder initialised */) {
		if (!io_open_dest(pair)) {
			bool all_ok = true;
			for (unsigned j = 0; j < NWRITES; ++j) {
				size_t n = fill_buf();
				if (io_write(pair, &h_buf, n)) { all_ok = false; g_write_failed = true; break; }
				g_expected += n; ++b_n;
			}
			/* the coder reports success only if everything it asked for worked and no
			 * signal was seen; it may also fail for its own reasons (corrupt input) */
			success = all_ok && !user_abort && nd_bool();
		} else {
			CHECK(!g_dest_open, "failed io_open_dest leaves no open target fd");
		}
	}
	h_coder_success = success;
	h_in_close = true;
	io_close(pair, success);
	/* ---- end state ---- */
	CHECK(!g_src_open && !g_dest_open && !g_dir_open, "no file descriptor leaked");
	if (!g_src_exists)
		CHECK(success, "the source is gone only after a successful run");
	if (!success) {
		CHECK(g_src_exists, "on any failure the source is left untouched");
		if (g_dest_created)
			CHECK(g_dest_unlink_attempted || g_dest_moved, "on failure the incomplete target created by xz is removed (unless its name no longer refers to it)");
	}
	if (g_src_unlinked) WITNESS("the source can be removed on full success");
	if (g_src_unlinked && opt_synchronous) WITNESS("removal after fsync of file and directory");
	if (success && opt_keep_original) WITNESS("success with --keep");
	if (!success && g_dest_created) WITNESS("failure after the target was created");
}

/* io_read: fewer bytes than requested are returned only at end of file (a read returned 0),
 * on a flush timeout, or on error/abort; never silently on a short read */
void harness_read(void)
{
	set_options();
	static file_pair pair_;
	memset(&pair_, 0, sizeof(pair_));
	pair_.src_name = SRC_NAME; pair_.src_fd = FD_SRC; pair_.dest_fd = -1; pair_.dir_fd = -1;
	pair_.src_has_seen_input = nd_bool();
	havoc_stat(&pair_.src_st);   /* any kind of source: regular file, pipe, ... */
	g_src_open = true;
	size_t want = nd_bool() ? IO_BUFFER_SIZE : (size_t)(nd_u32() % IO_BUFFER_SIZE);
	size_t got = io_read(&pair_, &h_buf, want);
	if (got != SIZE_MAX) {
		CHECK(got <= want, "never more than requested");
		if (got < want)
			CHECK(pair_.src_eof || pair_.flush_needed, "a short result only at end of file or on a flush timeout");
		CHECK(!pair_.src_eof || g_read_zero, "end of file is declared only after read() returned 0");
		if (got < want && pair_.src_eof) WITNESS("short result at EOF");
		if (got == want && want > 0) WITNESS("full read");
	} else {
		WITNESS("error/abort path");
	}
}

/* ------------------------------ C18: sparse output ------------------------------------ */
static bool h_closing;
static void track_write(const uint8_t *buf, size_t n)
{
	uint64_t logical = g_off - g_base;
#ifdef VCBMC
	bool in_buf = __CPROVER_POINTER_OBJECT(buf) == __CPROVER_POINTER_OBJECT(h_buf.u8);
#else
	bool in_buf = (uintptr_t)buf >= (uintptr_t)h_buf.u8 && (uintptr_t)buf < (uintptr_t)h_buf.u8 + IO_BUFFER_SIZE;
#endif
	if (in_buf) {
		size_t o = (size_t)(buf - h_buf.u8);
		CHECK(!h_closing, "buffer data is written during io_write, not at close");
		CHECK(b_start[b_n] + o == logical, "bytes are written at the file offset where they belong (no gap, no overlap, in order)");
		CHECK(o + n <= b_size[b_n], "never more than the caller's data is written");
	} else {
		/* the single zero byte that materialises a trailing hole */
		CHECK(h_closing && n == 1 && buf[0] == 0, "the only other write is the one zero byte that ends a trailing hole");
		CHECK(logical + 1 == g_expected, "that byte is the last byte of the data");
	}
}
static void track_hole(uint64_t len)
{
	uint64_t lo = g_off - g_base, hi = lo + len;
	CHECK(hi <= (h_closing ? g_expected : b_start[b_n]), "a hole never extends past the data accepted so far");
	for (unsigned j = 0; j < NWRITES; ++j)
		if (j < b_n && lo < b_start[j] + b_size[j] && hi > b_start[j])
			CHECK(b_zero[j], "only all-zero data is turned into a hole");
}

void harness_sparse(void)
{
	set_options();
	opt_mode = MODE_DECOMPRESS;
	static file_pair pair_;
	memset(&pair_, 0, sizeof(pair_));
	pair_.src_name = SRC_NAME; pair_.src_fd = FD_SRC; pair_.dir_fd = -1; pair_.dest_fd = -1;
	g_src_open = true;
	bool to_stdout = opt_stdout;
	if (io_open_dest(&pair_))
		return;
	if (!to_stdout) { g_base = 0; }
	else {
		/* stdout: regular file or not; O_APPEND or not; current offset anywhere */
		if (!pair_.dest_try_sparse) { g_base = g_off; }
		else g_base = g_off;
	}
	if (to_stdout && !g_is_stdout_regular)
		CHECK(!pair_.dest_try_sparse, "no sparse output (no seeking) on pipes and terminals");
	if (!try_sparse)
		CHECK(!pair_.dest_try_sparse, "--no-sparse disables seeking");
	bool ok = true;
	for (unsigned j = 0; j < NWRITES; ++j) {
		size_t n = fill_buf();
		if (io_write(&pair_, &h_buf, n)) { ok = false; g_write_failed = true; break; }
		g_expected += n; ++b_n;
		CHECK((g_off - g_base) + (uint64_t)pair_.dest_pending_sparse == g_expected, "written bytes + pending hole == bytes accepted");
	}
	h_closing = true; h_in_close = true; h_coder_success = ok && nd_bool();
	unsigned errs = n_errors;
	io_close(&pair_, h_coder_success);
	(void)errs;
	if (h_coder_success && !g_hard_fail && !g_write_failed && !user_abort) {
		CHECK(g_off - g_base == g_expected, "after a clean close the file offset covers exactly the data");
		CHECK(g_size >= g_base + g_expected, "final size includes a trailing run of zeros");
		if (g_holes > 0) WITNESS("a hole was created");
		if (g_holes > 0 && b_n >= 2 && !b_zero[b_n - 1]) WITNESS("hole followed by data");
	}
	if (g_stdout_flags_changed)
		CHECK(g_stdout_last_set_attempt == g_stdout_flags0, "stdout file status flags (O_APPEND/O_NONBLOCK) are restored at close");
}

/* ------------------------------ C19: open/metadata rules ------------------------------ */
void harness_open_src(void)
{
	set_options();
	file_pair *pair = io_open_src(SRC_NAME);
	bool follow = opt_stdout || opt_force || opt_keep_original;
	CHECK(((g_open_src_flags & O_NOFOLLOW) != 0) == !follow, "O_NOFOLLOW unless --stdout/--force/--keep");
	CHECK((g_open_src_flags & O_ACCMODE) == O_RDONLY && (g_open_src_flags & O_NOCTTY), "source opened read-only, O_NOCTTY");
	if (pair == NULL) {
		CHECK(!g_src_open, "a refused source is closed again");
		WITNESS("refusal path");
		return;
	}
	mode_t m = g_src_st.st_mode;
	CHECK(!S_ISDIR(m), "directories are never processed");
	if (!opt_stdout)
		CHECK(S_ISREG(m), "only regular files are replaced (non-regular sources only with --stdout)");
	if (!opt_stdout && !opt_force && !opt_keep_original) {
		CHECK((m & (S_ISUID | S_ISGID | S_ISVTX)) == 0, "setuid/setgid/sticky files are skipped");
		CHECK(g_src_st.st_nlink <= 1, "files with several hard links are skipped");
		WITNESS("plain replace mode accepted a file");
	}
	if (opt_force && (m & S_ISUID)) WITNESS("--force accepts a setuid file");
}

void harness_open_dest(void)
{
	set_options();
	ASSUME(!opt_stdout);
	static file_pair pair_;
	memset(&pair_, 0, sizeof(pair_));
	pair_.src_name = SRC_NAME; pair_.src_fd = FD_SRC; pair_.dir_fd = -1; pair_.dest_fd = -1;
	g_src_open = true;
	bool err = io_open_dest(&pair_);
	if (g_unlinked_preexisting_dest)
		CHECK(opt_force, "an existing file with the target name is touched only with --force");
	if (!err) {
		CHECK(g_dest_created, "success means xz created the target itself");
		CHECK((g_open_dest_flags & (O_CREAT | O_EXCL)) == (O_CREAT | O_EXCL), "target created with O_CREAT|O_EXCL (never opens an existing file)");
		CHECK((g_open_dest_flags & O_ACCMODE) == O_WRONLY, "target opened write-only");
		CHECK(g_open_dest_mode == (S_IRUSR | S_IWUSR), "target created with mode 0600 until the source's permissions are copied");
		if (g_dest_exists_before) { CHECK(opt_force, "existing target replaced only with --force"); WITNESS("--force replaced an existing target"); }
		WITNESS("target created");
	} else {
		CHECK(!g_dest_open && !g_dir_open, "failed open leaves no descriptor");
		if (g_dest_exists_before && !opt_force)
			CHECK(g_dest_exists && !g_dest_created, "without --force an existing target is left alone");
	}
}

void harness_copy_attrs(void)
{
	set_options();
	static file_pair pair_;
	memset(&pair_, 0, sizeof(pair_));
	pair_.src_name = SRC_NAME; pair_.src_fd = FD_SRC; pair_.dir_fd = -1; pair_.dest_fd = FD_DEST;
	havoc_stat(&pair_.src_st); havoc_stat(&pair_.dest_st);
	g_dest_open = true; g_dest_created = true; g_dest_exists = true;
	io_copy_attrs(&pair_);
	mode_t sm = pair_.src_st.st_mode;
	CHECK(g_fchmod_called, "permissions are set");
	CHECK((g_fchmod_mode & ~(mode_t)0777) == 0, "setuid/setgid/sticky are never copied");
	CHECK((g_fchmod_mode & ~(sm & 0777)) == 0, "target permissions are never broader than the source's");
	CHECK((g_fchmod_mode & 0700) == (sm & 0700), "owner permissions copied");
	if (g_fchown_gid_failed) {
		mode_t shared = ((sm >> 3) & 7) & (sm & 7);
		CHECK(((g_fchmod_mode >> 3) & 7) == shared && (g_fchmod_mode & 7) == shared,
			"when the group cannot be set, group and other get only the bits both had");
		WITNESS("group could not be set");
	} else {
		CHECK(g_fchmod_mode == (sm & 0777), "otherwise the permission bits are copied exactly");
	}
	if (g_fchown_gid_called)
		CHECK(g_fchown_gid == pair_.src_st.st_gid, "group set to the source's group");
	CHECK(g_fchown_uid == pair_.src_st.st_uid, "owner set to the source's owner");
	CHECK(g_futimens_called, "timestamps are set");
	CHECK(g_times[0].tv_sec == pair_.src_st.st_atim.tv_sec && g_times[0].tv_nsec == pair_.src_st.st_atim.tv_nsec
		&& g_times[1].tv_sec == pair_.src_st.st_mtim.tv_sec && g_times[1].tv_nsec == pair_.src_st.st_mtim.tv_nsec,
		"access and modification times equal the source's (nanosecond precision)");
	WITNESS("reached");
}
