# C17 -- xz never loses user data (file_io.c with every system call a nondeterministic stub)
FIO_FUNCS = ["io_open_src", "io_open_src_real", "io_open_dest", "io_open_dest_real", "io_write", "io_write_buf",
             "is_sparse", "io_read", "io_wait", "io_close", "io_close_dest", "io_close_src", "io_unlink",
             "io_copy_attrs", "io_sync_dest"]
FIO_STUBS = ["fairness bound: at most RETRY_BUDGET=2 try-again outcomes (EINTR, EAGAIN, short count, eventless poll round) per run, then calls complete or fail hard",
             "every system call of file_io.c (open close read write lseek fsync fstat lstat stat unlink fchown fchmod futimens fcntl poll pipe posix_fadvise geteuid dirname) = stub returning an arbitrary result/errno (short counts, EINTR, EAGAIN included) over a ghost file system",
             "a signal may arrive before every system call (user_abort set inside any stub)",
             "message_*, signals_block/unblock, tuklib_mask_nonprint, mytime_*: empty; suffix_get_dest_name: returns a name or NULL; xstrdup: malloc that succeeds",
             "the coder between open and close is abstract: it hands io_write arbitrary buffers and reports success only if every io_write succeeded and no signal was seen",
             "option invariants established by args.c are assumed: --stdout implies --keep; --keep disables syncing"]
OBLIGATIONS = [
    Obligation(name="fio_lifecycle", src="fio.c", func="harness_lifecycle", lib="xz",
        qdefs=["NWRITES=1", "SMALL_IOBUF"], tdefs=["NWRITES=3"], qunwind=140, tunwind=1030,
        functions=FIO_FUNCS, stubs=FIO_STUBS, timeout_q=280, timeout_t=1800, flags=["--object-bits", "10"],
        unwindset=[("io_read", "", 6), ("io_wait", "", 5), ("io_write_buf", "", 6)],
        desc="open source -> open target -> io_write x NWRITES -> io_close(success?) for every combination of --keep/--force/--stdout/--no-sync/mode/sparse, every system-call result and a signal before any call. Checked AT the unlink(source) call: coder succeeded, all writes acknowledged, target complete (size incl. trailing hole), metadata set, file+directory fsynced unless --no-sync, close(target) returned 0, not --keep/--stdout, dev/ino re-check passed. Checked at EVERY system call (crash point): source exists or a complete closed target exists. At the end: no fd leaked; on any failure the source exists and the target created by xz was unlinked.",
        bounds_q="1 io_write call; I/O buffer 1032 bytes (BUFSIZ=1032 configuration)", bounds_t="3 io_write calls; real 8192-byte I/O buffer",
        outside="coder.c/main.c control flow above file_io.c (the 'coder succeeded' bit is an input of this obligation); kernel durability semantics of fsync"),
    Obligation(name="fio_read", src="fio.c", func="harness_read", lib="xz", qdefs=["SMALL_IOBUF"], unwind=6,
        functions=["io_read", "io_wait"], stubs=FIO_STUBS[:3], timeout_q=280,
        unwindset=[("io_read", "", 6), ("io_wait", "", 5)],
        desc="io_read returns fewer bytes than requested only at end of file (a read() returned 0), on a flush timeout, or with an error/abort: short read() counts, EINTR and EAGAIN are retried",
        bounds_q="the environment answers try-again (EINTR/EAGAIN/short count/eventless poll) at most 2 times per run", expect_witness=True),
]
