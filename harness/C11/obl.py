# C11 -- lzma_code() calling protocol
F = ["lzma_code", "lzma_strm_init", "lzma_end", "lzma_next_end", "lzma_alloc", "lzma_free"]
OBLIGATIONS = [
    Obligation(name="code_history", src="code.c", func="harness_history",
               qdefs=["KCALLS=4"], tdefs=["KCALLS=7"], qunwind=9, tunwind=9, functions=F,
               flags=["--object-bits", "10"],
               stubs=["the coder behind the handle: consumes/produces any amounts within the buffers it is handed, returns any documented status except BUF_ERROR, or internal LZMA_TIMED_OUT",
                      "oracle: reference monitor of the documented protocol (api/lzma/base.h) in the harness"],
               desc="history of k lzma_code() calls on one handle, each with symbolic action (0..7), "
                    "buffer pointers (NULL or not), avail_in/avail_out, reserved-field mutation, optional "
                    "re-initialisation of the same handle in between; arbitrary supported_actions table: "
                    "PROG_ERROR/OPTIONS_ERROR exactly for the documented misuse and nothing touched then; "
                    "STREAM_END latches; BUF_ERROR exactly on the 2nd consecutive no-progress OK; fatal codes "
                    "latch; next_in/out, avail_*, total_* move by exactly what the coder reported; the coder "
                    "only ever sees the caller's two buffers; no internal code escapes; lzma_end ends once",
               bounds_q="k = 4 calls, buffers <= 8 bytes", bounds_t="k = 7 calls, buffers <= 8 bytes",
               timeout_q=280),
    Obligation(name="code_uninit", src="code.c", func="harness_uninit", unwind=7, functions=F,
               desc="lzma_code on a never-initialised handle and on a handle without a coder returns PROG_ERROR; lzma_end on it is harmless",
               bounds_q="all actions 0..4"),
]
