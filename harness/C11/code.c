/*
 * C11: the lzma_code() calling protocol.  Real common.c (lzma_code, lzma_strm_init, lzma_end,
 * lzma_next_end, lzma_alloc/free); the coder behind the handle is a nondeterministic stub
 * that may consume/produce any amounts inside the buffers it is handed and return any status
 * a coder may return.  A reference monitor written from api/lzma/base.h predicts every call.
 */
#include "vcommon.h"
#include "common.c"

#ifndef KCALLS
#define KCALLS 4
#endif
#define BUFSZ 8

static unsigned stub_calls;
static const uint8_t *stub_in; static size_t stub_in_size;
static uint8_t *stub_out; static size_t stub_out_size;
static lzma_action stub_action;
static size_t stub_ci, stub_co;
static lzma_ret stub_ret;

static lzma_ret
stub_code(void *coder, const lzma_allocator *allocator, const uint8_t *restrict in,
		size_t *restrict in_pos, size_t in_size, uint8_t *restrict out,
		size_t *restrict out_pos, size_t out_size, lzma_action action)
{
	(void)coder; (void)allocator;
	++stub_calls;
	stub_in = in; stub_in_size = in_size; stub_out = out; stub_out_size = out_size;
	stub_action = action;
	CHECK(*in_pos == 0 && *out_pos == 0, "coder is handed positions starting at 0");
	stub_ci = nd_size(); stub_co = nd_size();
	ASSUME(stub_ci <= in_size && stub_co <= out_size);
	*in_pos = stub_ci; *out_pos = stub_co;
	/* any status a coder may return: the documented ones (a coder never returns
	 * LZMA_BUF_ERROR itself) and the internal LZMA_TIMED_OUT */
	uint32_t r = nd_u32();
	ASSUME((r <= LZMA_SEEK_NEEDED && r != LZMA_BUF_ERROR) || r == LZMA_TIMED_OUT);
	stub_ret = (lzma_ret)r;
	return stub_ret;
}

static unsigned end_calls;
static void stub_end(void *coder, const lzma_allocator *allocator)
{
	(void)coder; (void)allocator;
	++end_calls;
}

/* reference monitor state */
enum mseq { M_RUN, M_SYNC, M_FULL, M_FINISH, M_BARRIER, M_END, M_ERROR };
static enum mseq mseq;
static bool m_allow_buf_error;
static size_t m_pending_avail_in;
static uint64_t m_total_in, m_total_out;

static int dummy_coder_object;

static void install(lzma_stream *strm, bool sup[LZMA_ACTION_MAX + 1])
{
	/* what every public init does: lzma_strm_init + install coder + supported_actions */
	lzma_ret r = lzma_strm_init(strm);
	CHECK(r == LZMA_OK, "strm_init ok (allocation assumed to succeed here)");
	/* same init function as before => the existing coder object is reused, as
	 * lzma_next_coder_init() does */
	strm->internal->next.init = (uintptr_t)&stub_code;
	strm->internal->next.coder = &dummy_coder_object;
	strm->internal->next.code = &stub_code;
	strm->internal->next.end = &stub_end;
	for (unsigned i = 0; i <= LZMA_ACTION_MAX; ++i) {
		sup[i] = nd_bool();
		strm->internal->supported_actions[i] = sup[i];
	}
	mseq = M_RUN; m_allow_buf_error = false; m_total_in = 0; m_total_out = 0;
	CHECK(strm->total_in == 0 && strm->total_out == 0, "totals reset by init");
}

void harness_history(void)
{
	static uint8_t inbuf[BUFSZ], outbuf[BUFSZ];
	lzma_stream strm = LZMA_STREAM_INIT;
	bool sup[LZMA_ACTION_MAX + 1];
	install(&strm, sup);
	bool saw_buf_error = false, saw_end_again = false, saw_prog = false, saw_progress = false;

	for (unsigned k = 0; k < KCALLS; ++k) {
		if (nd_bool()) {
			/* re-initialise the same handle without lzma_end (reuse) */
			install(&strm, sup);
		}
		/* caller sets up the buffers arbitrarily */
		size_t ioff = nd_size(), ooff = nd_size();
		ASSUME(ioff <= BUFSZ && ooff <= BUFSZ);
		bool in_null = nd_bool(), out_null = nd_bool();
		strm.next_in = in_null ? NULL : inbuf + ioff;
		strm.next_out = out_null ? NULL : outbuf + ooff;
		strm.avail_in = nd_size(); strm.avail_out = nd_size();
		ASSUME(strm.avail_in <= BUFSZ - ioff && strm.avail_out <= BUFSZ - ooff);
		bool bad_reserved = nd_bool();
		strm.reserved_int2 = bad_reserved ? 1 : 0;
		uint32_t action = nd_u32();
		ASSUME(action <= 7);

		const lzma_stream before = strm;
		const unsigned calls0 = stub_calls;
		lzma_ret ret = lzma_code(&strm, (lzma_action)action);

		/* ---- monitor ---- */
		bool misuse = (in_null && before.avail_in != 0) || (out_null && before.avail_out != 0)
				|| action > LZMA_ACTION_MAX || !sup[action];
		bool called = false;
		lzma_ret expect;
		if (misuse) {
			expect = LZMA_PROG_ERROR;
		} else if (bad_reserved) {
			expect = LZMA_OPTIONS_ERROR;
		} else {
			bool proto_err = false, at_end = false;
			switch (mseq) {
			case M_RUN:
				if (action == LZMA_SYNC_FLUSH) mseq = M_SYNC;
				else if (action == LZMA_FULL_FLUSH) mseq = M_FULL;
				else if (action == LZMA_FINISH) mseq = M_FINISH;
				else if (action == LZMA_FULL_BARRIER) mseq = M_BARRIER;
				break;
			case M_SYNC: proto_err = action != LZMA_SYNC_FLUSH || m_pending_avail_in != before.avail_in; break;
			case M_FULL: proto_err = action != LZMA_FULL_FLUSH || m_pending_avail_in != before.avail_in; break;
			case M_FINISH: proto_err = action != LZMA_FINISH || m_pending_avail_in != before.avail_in; break;
			case M_BARRIER: proto_err = action != LZMA_FULL_BARRIER || m_pending_avail_in != before.avail_in; break;
			case M_END: at_end = true; break;
			default: proto_err = true; break;
			}
			if (proto_err) {
				expect = LZMA_PROG_ERROR;
			} else if (at_end) {
				expect = LZMA_STREAM_END;
				saw_end_again = true;
			} else {
				called = true;
				expect = stub_ret;
			}
		}
		if (!called) {
			CHECK(stub_calls == calls0, "coder not invoked on a refused call");
			CHECK(ret == expect, "refused call returns the documented code");
			CHECK(strm.next_in == before.next_in && strm.avail_in == before.avail_in
				&& strm.next_out == before.next_out && strm.avail_out == before.avail_out
				&& strm.total_in == before.total_in && strm.total_out == before.total_out,
				"refused call changes nothing in the stream");
			if (ret == LZMA_PROG_ERROR)
				saw_prog = true;
			continue;
		}
		CHECK(stub_calls == calls0 + 1, "coder invoked exactly once");
		CHECK(stub_in == before.next_in && stub_in_size == before.avail_in
			&& stub_out == before.next_out && stub_out_size == before.avail_out,
			"coder is handed exactly the caller's two buffers");
		CHECK(stub_action == (lzma_action)action, "action passed through");
		CHECK(strm.avail_in == before.avail_in - stub_ci && strm.avail_out == before.avail_out - stub_co,
			"avail_in/avail_out decrease by exactly the bytes consumed/produced");
		if (stub_ci > 0) CHECK(strm.next_in == before.next_in + stub_ci, "next_in advances by bytes consumed");
		else CHECK(strm.next_in == before.next_in, "next_in unchanged when nothing consumed");
		if (stub_co > 0) CHECK(strm.next_out == before.next_out + stub_co, "next_out advances by bytes produced");
		else CHECK(strm.next_out == before.next_out, "next_out unchanged when nothing produced");
		m_total_in += stub_ci; m_total_out += stub_co;
		CHECK(strm.total_in == m_total_in && strm.total_out == m_total_out, "totals account exactly");
		m_pending_avail_in = strm.avail_in;
		if (stub_ci || stub_co) saw_progress = true;

		switch (stub_ret) {
		case LZMA_OK:
			if (stub_ci == 0 && stub_co == 0) {
				if (m_allow_buf_error) { expect = LZMA_BUF_ERROR; saw_buf_error = true; }
				else m_allow_buf_error = true;
			} else m_allow_buf_error = false;
			break;
		case LZMA_TIMED_OUT:
			expect = LZMA_OK; m_allow_buf_error = false; break;
		case LZMA_SEEK_NEEDED:
			m_allow_buf_error = false;
			if (mseq == M_FINISH) mseq = M_RUN;
			break;
		case LZMA_STREAM_END:
			mseq = (mseq == M_SYNC || mseq == M_FULL || mseq == M_BARRIER) ? M_RUN : M_END;
			m_allow_buf_error = false;
			break;
		case LZMA_NO_CHECK: case LZMA_UNSUPPORTED_CHECK: case LZMA_GET_CHECK: case LZMA_MEMLIMIT_ERROR:
			m_allow_buf_error = false; break;
		default:
			mseq = M_ERROR; break;
		}
		CHECK(ret == expect, "return code is the documented one for this history");
		CHECK((unsigned)ret <= LZMA_SEEK_NEEDED, "only documented status codes escape");
	}
	if (saw_buf_error) WITNESS("BUF_ERROR on second consecutive no-progress call");
	if (saw_end_again) WITNESS("call after STREAM_END");
	if (saw_prog) WITNESS("PROG_ERROR path");
	if (saw_progress) WITNESS("progress path");
	lzma_end(&strm);
	CHECK(strm.internal == NULL, "lzma_end clears the handle");
	CHECK(end_calls == 1, "coder's end called exactly once");
}

/* Use before initialisation: LZMA_STREAM_INIT'd handle, never initialised */
void harness_uninit(void)
{
	lzma_stream strm = LZMA_STREAM_INIT;
	uint32_t action = nd_u32();
	ASSUME(action <= LZMA_ACTION_MAX);
	CHECK(lzma_code(&strm, (lzma_action)action) == LZMA_PROG_ERROR, "use before init is PROG_ERROR");
	lzma_end(&strm); /* must be harmless */
	/* initialised by lzma_strm_init but no coder installed yet */
	CHECK(lzma_strm_init(&strm) == LZMA_OK, "init");
	CHECK(lzma_code(&strm, (lzma_action)action) == LZMA_PROG_ERROR, "no coder installed is PROG_ERROR");
	WITNESS("reached");
	lzma_end(&strm);
}
