# C18 -- the CLI delivers exactly the decoded bytes whatever the sink (sink logic of file_io.c)
exec(open(__file__.replace("C18/obl.py", "C17/obl.py")).read().split("OBLIGATIONS = [")[0])
OBLIGATIONS = [
    Obligation(name="sparse_extents", src="../C17/fio.c", func="harness_sparse", lib="xz",
        defs=["TRACK_EXTENTS"], qdefs=["NWRITES=2", "SMALL_IOBUF", "RETRY_BUDGET=1"], tdefs=["NWRITES=3", "RETRY_BUDGET=2", "SMALL_IOBUF"], qunwind=140, tunwind=140,
        unwindset=[("io_read", "", 6), ("io_wait", "", 5), ("io_write_buf", "", 6)],
        functions=["io_open_dest_real", "io_write", "io_write_buf", "is_sparse", "io_close", "io_close_dest", "io_wait"],
        stubs=FIO_STUBS + ["ghost target file = (base offset, current offset, size, bytes skipped); write() must be handed exactly the sub-range of the caller's buffer that belongs at the current offset; lseek(SEEK_CUR) ranges are checked against the all-zero flags of the accepted buffers",
                           "buffer contents: all zero or exactly one non-zero byte at a symbolic position (covers every word of is_sparse)"],
        timeout_q=280, timeout_t=1800, flags=["--object-bits", "10"],
        desc="decompression output through io_write x NWRITES + io_close to a new file or to stdout (regular file at any offset, O_APPEND or not, pipe/tty), --no-sparse or not, full and partial buffers, zero and non-zero contents: every write() lands at the offset where its bytes belong (no gap/overlap/reordering), only all-zero data is ever skipped by lseek, holes never extend past accepted data, written+pending == accepted after every call, a trailing hole is materialised by one zero byte so the final size is exact, pipes/ttys/--no-sparse never seek, stdout's O_APPEND/O_NONBLOCK flags are restored on close",
        bounds_q="2 io_write calls, I/O buffer 1032 bytes (BUFSIZ=1032 configuration), <= 1 try-again outcome", bounds_t="3 io_write calls, 1032-byte buffer, <= 2 try-again outcomes",
        outside="agreement of the tools' decoded bytes with liblzma beyond the I/O layer; coder.c/xzdec.c control flow; option parsing; thread counts"),
    Obligation(name="read_no_silent_truncation", src="../C17/fio.c", func="harness_read", lib="xz", qdefs=["SMALL_IOBUF"], unwind=6,
        functions=["io_read", "io_wait"], stubs=FIO_STUBS[:4], unwindset=[("io_read", "", 6), ("io_wait", "", 5)],
        desc="input side: io_read never reports end of input unless read() returned 0 (short counts/EINTR/EAGAIN are retried), so the decoder sees every byte of the file",
        bounds_q="<= 2 try-again outcomes per run"),
]
CSTUB = ["liblzma entry points used by coder.c = recording stubs (init functions record the chosen decoder; lzma_code consumes/produces arbitrary amounts and returns OK/STREAM_END/DATA_ERROR/UNSUPPORTED_CHECK/BUF_ERROR, at most 4 calls); io_read/io_write/io_fix_src_pos, message_*, hardware_* = stubs with arbitrary results; option globals symbolic under args.c's constraints"]
OBLIGATIONS += [
    Obligation(name="coder_init_per_file_state", src="xzcoder.c", func="harness_coder_init", lib="xz", qdefs=["SMALL_IOBUF"], unwind=18, flags=["--object-bits", "10"], stubs=CSTUB, timeout_q=280,
        functions=["coder_init", "is_format_xz", "is_format_lzma", "is_format_lzip"],
        desc="coder_init for ANY leftover state of the previous file in the same xz run, any mode/format/flags and any first 16 input bytes: trailing input is tolerated exactly for --single-stream and .lz files (so a .lzma file followed by garbage is an error whatever was processed before); pass-through only with -dcf",
        bounds_q="first 16 input bytes symbolic"),
    Obligation(name="coder_normal_outcome", src="xzcoder.c", func="harness_coder_normal", lib="xz", defs=["SMALL_IOBUF"], unwind=8, flags=["--object-bits", "10"], stubs=CSTUB, timeout_q=280,
        functions=["coder_normal", "coder_write_output"],
        desc="decoding loop with an arbitrary library: success only after STREAM_END with every write successful; after end of stream or an error the library is not called again (nothing after an error); all output produced before that point is handed to io_write (everything decodable before an error); without the trailing-input allowance success requires no unread input and end of file, with it unread bytes are given back",
        bounds_q="<= 4 lzma_code calls, <= 3 reads; 1032-byte I/O buffers"),
]
