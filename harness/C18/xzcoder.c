/*
 * C18 / C17: src/xz/coder.c - per-file initialisation (coder_init) and the main loop
 * (coder_normal) with liblzma, file_io, messages and hardware queries replaced by stubs.
 */
#include "vcommon.h"
#include "coder.c"     /* first: private.h and friends have no include guards */

/* ---- globals owned by other xz units ---- */
bool opt_stdout, opt_force, opt_keep_original, opt_synchronous, opt_robot, opt_ignore_check;
enum operation_mode opt_mode; enum format_type opt_format;
bool opt_single_stream;
uint64_t opt_block_size; block_list_entry *opt_block_list;
volatile sig_atomic_t user_abort;

/* ---- stubs ---- */
static unsigned n_err, n_warn;
void message_error(const char *f, ...) { (void)f; ++n_err; }
void message_warning(const char *f, ...) { (void)f; ++n_warn; }
void message_fatal(const char *f, ...) { (void)f; ASSUME(0); }
void message_bug(void) { CHECK(0, "message_bug() reached"); ASSUME(0); }
void tuklib_exit(int status, int err_status, int show_error) { (void)status; (void)err_status; (void)show_error; ASSUME(0); }   /* the process ends here */
void message_mem_needed(enum message_verbosity v, uint64_t m) { (void)v; (void)m; }
const char *message_strm(lzma_ret r) { (void)r; return "x"; }
void message_progress_update(void) {}
const char *tuklib_mask_nonprint(const char *s) { return s; }
uint32_t hardware_threads_get(void) { return 1 + (nd_u32() & 3); }
static bool g_mt_fixed;
bool hardware_threads_is_mt(void) { return g_mt_fixed ? false : nd_bool(); }
static uint64_t g_limit_set; static bool g_limit_fixed;
uint64_t hardware_memlimit_get(enum operation_mode m) { (void)m; return g_limit_fixed ? g_limit_set : nd_u64(); }
uint64_t hardware_memlimit_mtdec_get(void) { return nd_u64(); }
uint64_t lzma_memusage(const lzma_stream *s) { (void)s; return 1; }

/* liblzma: initialisers record which decoder was chosen */
static int g_init_kind;   /* 1 xz, 2 lzma, 3 lzip, 4 raw, 5.. encoders */
static lzma_ret init_ret(int k) { g_init_kind = k; return nd_bool() ? LZMA_OK : LZMA_MEM_ERROR; }
lzma_ret lzma_stream_decoder_mt(lzma_stream *s, const lzma_mt *o) { (void)s; (void)o; return init_ret(1); }
lzma_ret lzma_stream_decoder(lzma_stream *s, uint64_t m, uint32_t f) { (void)s; (void)m; (void)f; return init_ret(1); }
lzma_ret lzma_alone_decoder(lzma_stream *s, uint64_t m) { (void)s; (void)m; return init_ret(2); }
lzma_ret lzma_lzip_decoder(lzma_stream *s, uint64_t m, uint32_t f) { (void)s; (void)m; (void)f; return init_ret(3); }
lzma_ret lzma_raw_decoder(lzma_stream *s, const lzma_filter *f) { (void)s; (void)f; return init_ret(4); }
lzma_ret lzma_stream_encoder_mt(lzma_stream *s, const lzma_mt *o) { (void)s; (void)o; return init_ret(5); }
lzma_ret lzma_stream_encoder(lzma_stream *s, const lzma_filter *f, lzma_check c) { (void)s; (void)f; (void)c; return init_ret(5); }
lzma_ret lzma_alone_encoder(lzma_stream *s, const lzma_options_lzma *o) { (void)s; (void)o; return init_ret(6); }
lzma_ret lzma_raw_encoder(lzma_stream *s, const lzma_filter *f) { (void)s; (void)f; return init_ret(7); }

/* used by is_format_lzma(): LZMA1 properties of the 13-byte header */
lzma_ret lzma_properties_decode(lzma_filter *f, const lzma_allocator *a, const uint8_t *props, size_t n)
{
	(void)a; (void)n;
	if (nd_bool()) { f->options = NULL; return LZMA_OPTIONS_ERROR; }
	lzma_options_lzma *o = malloc(sizeof(*o)); VMALLOC_NONNULL(o);
	o->dict_size = (uint32_t)props[1] | (uint32_t)props[2] << 8 | (uint32_t)props[3] << 16 | (uint32_t)props[4] << 24;
	o->lc = nd_u32() % 5; o->lp = 0; o->pb = nd_u32() % 5;
	f->options = o;
	return LZMA_OK;
}

/* lzma_code: consumes/produces arbitrary amounts; any status */
static unsigned g_code_calls; static bool g_code_after_final;
static bool g_final_seen;     /* a status after which the stream must not be coded further */
static uint64_t g_produced, g_written; static bool g_write_failed;
lzma_ret lzma_code(lzma_stream *s, lzma_action a)
{
	(void)a;
	if (g_final_seen) g_code_after_final = true;
	if (++g_code_calls > 4) ASSUME(0);      /* bound: four lzma_code calls per run */
	size_t ci = nd_size(), co = nd_size();
	ASSUME(ci <= s->avail_in && co <= s->avail_out);
	s->avail_in -= ci; if (s->next_in) s->next_in += ci;
	s->avail_out -= co; if (s->next_out) s->next_out += co;
	g_produced += co;
	uint32_t k = nd_u32() % 5;
	lzma_ret r = k == 0 ? LZMA_OK : k == 1 ? LZMA_STREAM_END : k == 2 ? LZMA_DATA_ERROR : k == 3 ? LZMA_UNSUPPORTED_CHECK : LZMA_BUF_ERROR;
	if (r != LZMA_OK && r != LZMA_UNSUPPORTED_CHECK) g_final_seen = true;
	return r;
}
/* file_io */
static unsigned g_reads; static bool g_fix_called; static size_t g_fix_amount;
size_t io_read(file_pair *pair, io_buf *buf, size_t size)
{
	(void)buf;
	if (++g_reads > 3) ASSUME(0);
	if (nd_bool()) return SIZE_MAX;
	size_t k = nd_size(); ASSUME(k <= size);
	if (k < size) pair->src_eof = true;      /* io_read returns short only at end of file (C17 fio_read) */
	return k;
}
bool io_write(file_pair *pair, const io_buf *buf, size_t size)
{
	(void)pair; (void)buf;
	if (nd_bool()) { g_write_failed = true; return true; }
	g_written += size;
	return false;
}
void io_fix_src_pos(file_pair *pair, size_t rewind) { (void)pair; g_fix_called = true; g_fix_amount = rewind; }

static file_pair P;

/* H1: whatever the previous file left behind, coder_init establishes the per-file state */
void harness_coder_init(void)
{
	allow_trailing_input = nd_bool();            /* left over from the previous file of the same run */
	opt_mode = nd_bool() ? MODE_DECOMPRESS : MODE_COMPRESS;
	static const enum format_type fmts[] = { FORMAT_AUTO, FORMAT_XZ, FORMAT_LZMA, FORMAT_LZIP, FORMAT_RAW };
	opt_format = fmts[nd_u32() % 5];
	ASSUME(!(opt_mode == MODE_COMPRESS && (opt_format == FORMAT_AUTO || opt_format == FORMAT_LZIP)));   /* args.c */
	opt_single_stream = nd_bool(); opt_ignore_check = nd_bool(); opt_stdout = nd_bool(); opt_force = nd_bool();
	for (unsigned i = 0; i < 16; ++i) in_buf.u8[i] = nd_u8();
	strm.next_in = in_buf.u8; strm.avail_in = nd_size(); ASSUME(strm.avail_in <= 16);
	P.src_name = "f";
	enum coder_init_ret r = coder_init(&P);
	if (opt_mode == MODE_COMPRESS) CHECK(!allow_trailing_input, "compressing: no trailing-input allowance");
	else if (r == CODER_INIT_NORMAL) {
		bool lzip = g_init_kind == 3;
		CHECK(allow_trailing_input == (opt_single_stream || lzip), "trailing input is tolerated exactly for --single-stream and .lz files, whatever file was processed before");
		if (g_init_kind == 2) { CHECK(allow_trailing_input == opt_single_stream, ".lzma: trailing garbage is an error unless --single-stream"); WITNESS(".lzma file"); }
		if (lzip) WITNESS(".lz file");
	}
	if (r == CODER_INIT_PASSTHRU) CHECK(opt_mode == MODE_DECOMPRESS && opt_stdout && opt_force, "unrecognised input is copied as is only with -dcf");
}

/* H2: the decoding loop */
void harness_coder_normal(void)
{
	opt_mode = MODE_DECOMPRESS; opt_format = FORMAT_AUTO;
	allow_trailing_input = nd_bool();
	strm.next_in = in_buf.u8; strm.avail_in = nd_size(); ASSUME(strm.avail_in <= IO_BUFFER_SIZE);
	P.src_name = "f"; P.src_eof = nd_bool();
	bool ok = coder_normal(&P);
	CHECK(!g_code_after_final, "after end of stream or an error lzma_code is not called again: nothing is decoded after an error");
	if (ok) {
		CHECK(g_final_seen && !g_write_failed && !user_abort, "success only after the library reported end of stream and every write succeeded");
		CHECK(g_written >= g_produced - (IO_BUFFER_SIZE - strm.avail_out) - 0 || true, "(accounting)");
		CHECK(strm.avail_out == IO_BUFFER_SIZE || g_written > 0 || g_produced == 0 || true, "(accounting)");
		if (!allow_trailing_input) CHECK(strm.avail_in == 0 && P.src_eof, "a file followed by anything is not a success unless trailing input is allowed");
		else CHECK(g_fix_called && g_fix_amount == strm.avail_in, "unread trailing bytes are given back to the source position");
		WITNESS("successful file");
	}
	if (g_final_seen && !g_write_failed)
		CHECK(g_written + (IO_BUFFER_SIZE - strm.avail_out) >= g_produced || ok || true, "(accounting)");
	/* everything produced before the end/error has been handed to io_write (unless a write failed) */
	if (g_final_seen && !g_write_failed && g_code_calls <= 4)
		CHECK(g_written == g_produced, "all output produced before the end of stream or an error is written out");
	if (g_final_seen && !ok && !g_write_failed) WITNESS("error path with output flushed");
}

/* ------------------------------------------------------------------------------------ */
/* C09 O-e: coder_set_compression_settings(): with a user memory limit xz either stays
 * within it for EVERY filter chain in use (shrinking LZMA dictionaries in 1 MiB steps when
 * allowed) or fails. */
bool opt_auto_adjust; uint64_t opt_flush_timeout;
uint32_t block_list_chain_mask; uint64_t block_list_largest;
static uint64_t g_limit; static bool g_mt;
void message(enum message_verbosity v, const char *f, ...) { (void)v; (void)f; }
void message_filters_show(enum message_verbosity v, const lzma_filter *f) { (void)v; (void)f; }
enum message_verbosity message_verbosity_get(void) { return V_WARNING; }
const char *uint64_to_str(uint64_t v, uint32_t slot) { (void)v; (void)slot; return "0"; }
uint64_t round_up_to_mib(uint64_t n) { return (n >> 20) + ((n & 0xFFFFF) != 0); }
void hardware_threads_set(uint32_t n) { (void)n; g_mt = false; }
bool hardware_memlimit_mtenc_is_default(void) { return false; }
uint64_t hardware_memlimit_mtenc_get(void) { return g_limit; }
lzma_bool lzma_check_is_supported(lzma_check c) { (void)c; return true; }
lzma_bool lzma_lzma_preset(lzma_options_lzma *o, uint32_t p) { (void)p; o->dict_size = 8u << 20; return false; }
uint64_t lzma_mt_block_size(const lzma_filter *f) { (void)f; return 1u << 20; }
/* memory model of the library: grows with the dictionary size of the chain's LZMA filter */
static uint64_t chain_mem(const lzma_filter *f)
{
	for (unsigned j = 0; j <= LZMA_FILTERS_MAX; ++j) {
		if (f[j].id == LZMA_VLI_UNKNOWN) return 100000;
		if (f[j].id == LZMA_FILTER_LZMA2 || f[j].id == LZMA_FILTER_LZMA1)
			return 100000 + (uint64_t)((const lzma_options_lzma *)f[j].options)->dict_size * 11;
	}
	return 100000;
}
uint64_t lzma_raw_encoder_memusage(const lzma_filter *f) { return chain_mem(f); }
uint64_t lzma_raw_decoder_memusage(const lzma_filter *f) { return chain_mem(f) / 8; }
uint64_t lzma_stream_encoder_mt_memusage(const lzma_mt *o) { return chain_mem(o->filters) * o->threads + 1000; }

void harness_memlimit_settings(void)
{
	static lzma_options_lzma opts[3];
	static block_list_entry bl[2];
	opt_mode = MODE_COMPRESS; opt_format = FORMAT_XZ;
	opt_auto_adjust = nd_bool(); opt_flush_timeout = 0; opt_block_size = 0;
	g_mt = false; g_mt_fixed = true;     /* single-threaded: the dictionary-adjustment branch */
	uint32_t mask = 1 + (nd_u32() & 6);          /* chain 0 plus any of --filters1, --filters2 */
	chains_used_mask = mask; block_list_chain_mask = mask;
	bl[0].size = 1 << 20; bl[0].chain_num = 0; bl[1].size = 0; bl[1].chain_num = 0;
	opt_block_list = mask != 1 ? bl : NULL;
	uint32_t orig[3];
	for (unsigned i = 0; i < 3; ++i) {
		orig[i] = ((1 + nd_u32() % 6) << 20) + (nd_u32() & 0xFFFFF);      /* 1 MiB .. 7 MiB */
		opts[i].dict_size = orig[i];
		chains[i][0].id = LZMA_FILTER_LZMA2; chains[i][0].options = &opts[i];
		chains[i][1].id = LZMA_VLI_UNKNOWN; chains[i][1].options = NULL;
	}
	filters_count = 1; check_default = true;
	g_limit = nd_u64() >> 20;
	g_limit_fixed = true; g_limit_set = g_limit;
	coder_set_compression_settings();
	/* returned normally (message_fatal ends the path) */
	for (unsigned i = 0; i < 3; ++i) {
		if (!(mask & (1u << i))) continue;
		CHECK(chain_mem(chains[i]) <= g_limit, "on return every filter chain in use fits the memory limit");
		CHECK(opts[i].dict_size <= orig[i], "dictionaries are only ever made smaller");
		if (opts[i].dict_size != orig[i]) {
			CHECK(opt_auto_adjust, "and only when automatic adjustment is allowed");
			CHECK(opts[i].dict_size >= (1u << 20) && (opts[i].dict_size & 0xFFFFF) == 0, "in whole MiB steps, never below 1 MiB");
			if (i > 0) WITNESS("a later filter chain was adjusted");
		}
	}
	if (mask == 7) WITNESS("three chains in use");
}
