# C06 -- results do not depend on buffer slicing; deterministic encoder output.
# The slicing obligations live next to the code they exercise; the ones below are the same
# harnesses (same real translation units) re-run under this property, plus C06-specific ones.
OBLIGATIONS = []
OBLIGATIONS += reuse("C15", r"bcj_(arm|x86)_split_(enc|dec)$")       # simple_code(): sliced == one-shot
OBLIGATIONS += reuse("C15", r"kernel_split$")                        # filter kernels: two calls == one call
OBLIGATIONS += reuse("C05", r"stream_padding_rule|stream_header_split")  # stream_decode: padding/header split
OBLIGATIONS += reuse("C16", r"lzip_header_rules|lzip_footer_rules|alone_header_rules|auto_concatenated_rule")
OBLIGATIONS += reuse("C02", r"vli_encode_resumable|index_encode_sliced")
S = "src/liblzma/"
OBLIGATIONS += [
    Obligation(name="vli_decode_split", src="vlidec.c", func="harness_vli_decode", unwind=12, units=[S + "common/vli_decoder.c"],
        functions=["lzma_vli_decode"],
        desc="lzma_vli_decode on every 10-byte string and length: single-call result == spec decoder (complete, minimal, <= 9 bytes); resumable decoding with the input cut at any point gives the same value, position and verdict",
        bounds_q="all inputs up to 10 bytes, all cut points"),
]
OBLIGATIONS += reuse("C01", r"lz_window_")   # what the match finder sees does not depend on input arrival
OBLIGATIONS += [
    Obligation(name="lzma2_lzma_chunk_slicing", src="lzma2slice.c", func="harness_lzma_chunk_slicing", unwind=6,
        units=[S + "common/common.c", S + "lzma/lzma_decoder.c"], defs=["NMAX=8"], flags=["--object-bits", "10"],
        unwindset=[("nd_bytes", "", 10)],
        fp_restrict=["lzma2_decode.function_pointer_call.4/stub_code"],
        functions=["lzma2_decode"],
        stubs=["LZMA1 payload decoder: the chunk's LZMA data needs exactly `want` (arbitrary) bytes; consumes what it is offered up to that, then reports end of chunk"],
        desc="LZMA2 decoder, LZMA-chunk step (SEQ_LZMA) from an arbitrary Compressed Size: one call with all input vs the same input cut anywhere into two calls -- same final status (DATA_ERROR exactly when the LZMA data is longer or shorter than the Compressed Size field), same input consumed, same state",
        bounds_q="LZMA data of <= 8 bytes, Compressed Size 1..65536, every cut point; input does not extend beyond the chunk's LZMA data"),
]
OBLIGATIONS += reuse("C03", r"lzma2_chunk_layer")      # whole LZMA2 chunk layer: every input, every slicing, vs the chunk grammar
OBLIGATIONS += reuse("C05", r"block_body_rules|index_hash_exact_(1call|sliced)")   # Block body / Index verification: every slicing
