/*
 * C06: the LZMA-chunk step of the LZMA2 decoder (lzma2_decoder.c lzma2_decode, case SEQ_LZMA)
 * run twice from the same arbitrary state on the same input -- once with all input in one call,
 * once cut at an arbitrary point into two calls -- must end with the same status and the same
 * number of input bytes consumed.
 *
 * The LZMA1 payload decoder is a stub: the chunk's LZMA data needs exactly `want` bytes
 * (arbitrary); it consumes what it is offered up to that, then reports the end of the chunk.
 * The input offered (n bytes) never extends beyond the LZMA data (n <= want), so no later
 * control byte is involved.
 */
#include "vcommon.h"
#include "lzma2_decoder.c"

#ifndef NMAX
#define NMAX 8
#endif

static size_t g_left;
static lzma_ret stub_code(void *c, lzma_dict *restrict dict, const uint8_t *restrict in,
		size_t *restrict in_pos, size_t in_size)
{
	(void)c; (void)dict; (void)in;
	size_t avail = in_size - *in_pos;
	size_t take = avail < g_left ? avail : g_left;
	*in_pos += take;
	g_left -= take;
	return g_left == 0 ? LZMA_STREAM_END : LZMA_OK;
}

static void mk(lzma_lzma2_coder *c, size_t cs)
{
	c->sequence = SEQ_LZMA;
	c->next_sequence = SEQ_LZMA;
	c->compressed_size = cs;
	c->uncompressed_size = 1;
	c->need_properties = false;
	c->need_dictionary_reset = false;
	c->lzma.coder = NULL; c->lzma.code = &stub_code; c->lzma.reset = NULL;
	c->lzma.set_uncompressed = NULL; c->lzma.end = NULL;
}

void harness_lzma_chunk_slicing(void)
{
	uint8_t in[NMAX];
	nd_bytes(in, NMAX);
	const size_t cs = nd_size(), want = nd_size(), n = nd_size(), cut = nd_size();
	ASSUME(cs >= 1 && cs <= 65536);
	ASSUME(want >= 1 && want <= NMAX && n <= want && cut <= n);
	static lzma_dict dict;           /* not touched by this step */

	/* run A: everything in one call */
	lzma_lzma2_coder a; mk(&a, cs);
	g_left = want;
	size_t pa = 0;
	lzma_ret ra = lzma2_decode(&a, &dict, in, &pa, n);

	/* run B: cut into two calls */
	lzma_lzma2_coder b; mk(&b, cs);
	g_left = want;
	size_t pb = 0;
	lzma_ret rb = lzma2_decode(&b, &dict, in, &pb, cut);
	if (rb == LZMA_OK)
		rb = lzma2_decode(&b, &dict, in, &pb, n);

	const bool overrun = want > cs && n > cs;     /* the LZMA data runs past the Compressed Size field */
	CHECK(ra == rb, "same final status for both slicings");
	CHECK(ra == LZMA_OK || ra == LZMA_DATA_ERROR, "OK (chunk finished or incomplete) or DATA_ERROR");
	CHECK((ra == LZMA_DATA_ERROR) == (overrun || (n == want && want < cs)), "rejected exactly when the LZMA data is longer or shorter than the chunk's Compressed Size field");
	if (overrun) {
		CHECK(pa == pb, "[lzma2-csize-overrun] input consumed when a chunk's LZMA data runs past its Compressed Size field does not depend on slicing");
		WITNESS("LZMA data longer than the Compressed Size field");
	} else {
		CHECK(pa == pb && pa == n, "same input consumed for both slicings");
		CHECK(a.sequence == b.sequence && a.compressed_size == b.compressed_size, "same decoder state afterwards");
		if (ra == LZMA_OK && a.sequence == SEQ_CONTROL) WITNESS("chunk completed");
	}
}
