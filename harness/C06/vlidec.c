/* C06/C03/C04: lzma_vli_decode, single-call and resumable with any split, vs the spec decoder */
#include "vcommon.h"
#include "common.h"
#include "../../spec/xzspec.h"

void harness_vli_decode(void)
{
	uint8_t in[10];
	nd_bytes(in, 10);
	size_t n = nd_size(); ASSUME(n <= 10);
	/* single call */
	lzma_vli v1 = 0x1234; size_t p1 = 0;
	lzma_ret r1 = lzma_vli_decode(&v1, NULL, in, &p1, n);
	uint64_t sv = 0; size_t sk = spec_vli(in, n, &sv);
	CHECK((r1 == LZMA_OK) == (sk != 0), "single-call decode succeeds exactly for a complete, minimal, <= 9 byte integer");
	if (r1 == LZMA_OK) { CHECK(v1 == sv && p1 == sk, "value and length equal the spec decoder's"); WITNESS("valid VLI"); }
	else CHECK(r1 == LZMA_DATA_ERROR, "otherwise DATA_ERROR");
	/* resumable, input cut at a symbolic point */
	size_t cut = nd_size(); ASSUME(cut <= n);
	lzma_vli v2 = 0; size_t vp = 0, p2 = 0;
	lzma_ret r2 = lzma_vli_decode(&v2, &vp, in, &p2, cut);
	if (r2 == LZMA_OK || (r2 == LZMA_BUF_ERROR && cut == 0)) {
		CHECK(p2 == cut, "everything given so far was consumed");
		r2 = lzma_vli_decode(&v2, &vp, in, &p2, n);
	}
	if (sk != 0) { CHECK(r2 == LZMA_STREAM_END && v2 == sv && p2 == sk, "resumable decoding gives the same value and position for any split"); if (cut > 0 && cut < sk) WITNESS("split inside the integer"); }
	else CHECK(r2 != LZMA_STREAM_END, "an invalid or incomplete integer never completes, whatever the split");
}
