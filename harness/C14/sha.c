/*
 * C14 (6): SHA-256 buffering and padding (lzma_sha256_init/update/finish, real) with the
 * compression function `transform` replaced (goto-instrument --replace-calls) by a logger:
 * for every message length <= LMAX and every split into three update calls, the 64-byte
 * blocks handed to the compression function are exactly the FIPS 180-4 padded message, in
 * order, and the digest bytes are the big-endian state words.  Also the dispatch through
 * lzma_check_init/update/finish and lzma_check_size.
 */
#include "vcommon.h"
#include "sha256.c"
#include "check.c"

#ifndef LMAX
#define LMAX 70
#endif
#define MAXBLK ((LMAX + 9 + 63) / 64)

static uint8_t blocks[MAXBLK + 1][64];
static unsigned nblocks;

/* replacement for transform(): record the block (as bytes, in memory order of data[]) and
 * make the state depend on the call count so that ordering is observable */
void vstub_transform(uint32_t state[8], const uint32_t data[16])
{
	if (nblocks <= MAXBLK)
		memcpy(blocks[nblocks], data, 64);
	++nblocks;
	state[0] += 1;
	state[7] ^= nblocks;
}

/* Inductive step 1: from ANY buffering state (total size so far arbitrary, partial block
 * arbitrary), one update call of len <= LMAX bytes: the blocks handed to the compression
 * function are exactly the complete 64-byte groups of (pending bytes || new data), in order;
 * the remaining bytes stay pending; the byte counter advances by len. */
void harness_sha_update_step(void)
{
	static uint8_t msg[LMAX];
	lzma_check_state chk;
	uint64_t size0 = nd_u64();
	ASSUME(size0 < ((uint64_t)1 << 60));
	size_t pend = (size_t)(size0 & 63);
	uint8_t pending[64];
	for (size_t i = 0; i < 64; ++i) { pending[i] = nd_u8(); chk.buffer.u8[i] = pending[i]; }
	for (int i = 0; i < 8; ++i) chk.state.sha256.state[i] = nd_u32();
	chk.state.sha256.size = size0;
	size_t len = nd_size();
	ASSUME(len <= LMAX);
	for (size_t i = 0; i < LMAX; ++i) msg[i] = nd_u8();
	nblocks = 0;
	lzma_sha256_update(msg, len, &chk);
	CHECK(chk.state.sha256.size == size0 + len, "byte counter advances by len");
	CHECK(nblocks == (pend + len) / 64, "one compression call per completed 64-byte group");
	size_t q = nd_size();
	ASSUME(q < pend + len);
	uint8_t expect = q < pend ? pending[q] : msg[q - pend];
	if (q / 64 < nblocks)
		CHECK(blocks[q / 64][q % 64] == expect, "completed blocks are (pending || data) in order");
	else
		CHECK(chk.buffer.u8[q % 64] == expect, "incomplete tail stays pending in the buffer");
	if (nblocks >= 1) WITNESS("a block completed by the update");
	if (len == 0) WITNESS("empty update");
}

/* Inductive step 2: finish from ANY buffering state: padding is 0x80, zeros up to 56 mod 64,
 * then the 64-bit big-endian BIT count; one or two compression calls; digest = big-endian state */
void harness_sha_finish_step(void)
{
	lzma_check_state chk;
	uint64_t size0 = nd_u64();
	ASSUME(size0 < ((uint64_t)1 << 60));
	size_t pend = (size_t)(size0 & 63);
	uint8_t pending[64];
	for (size_t i = 0; i < 64; ++i) { pending[i] = nd_u8(); chk.buffer.u8[i] = pending[i]; }
	for (int i = 0; i < 8; ++i) chk.state.sha256.state[i] = nd_u32();
	chk.state.sha256.size = size0;
	nblocks = 0;
	lzma_sha256_finish(&chk);
	size_t total = pend < 56 ? 64 : 128;
	CHECK(nblocks == total / 64, "one padding block, two when fewer than 9 bytes are free");
	uint64_t bits = size0 * 8;
	size_t q = nd_size();
	ASSUME(q < total);
	uint8_t expect;
	if (q < pend) expect = pending[q];
	else if (q == pend) expect = 0x80;
	else if (q < total - 8) expect = 0x00;
	else expect = (uint8_t)(bits >> (8 * (total - 1 - q)));
	CHECK(blocks[q / 64][q % 64] == expect, "final blocks are pending || 0x80 || zeros || big-endian bit length");
	for (int i = 0; i < 8; ++i) {
		uint32_t w = chk.state.sha256.state[i];
		CHECK(chk.buffer.u8[4 * i] == (uint8_t)(w >> 24) && chk.buffer.u8[4 * i + 1] == (uint8_t)(w >> 16)
			&& chk.buffer.u8[4 * i + 2] == (uint8_t)(w >> 8) && chk.buffer.u8[4 * i + 3] == (uint8_t)w,
			"digest bytes are the big-endian state words");
	}
	if (pend >= 56) WITNESS("extra padding block needed");
	if (pend == 55) WITNESS("exactly fits");
}

void harness_sha_init(void)
{
	lzma_check_state chk;
	lzma_check_init(&chk, LZMA_CHECK_SHA256);
	static const uint32_t iv[8] = { 0x6A09E667, 0xBB67AE85, 0x3C6EF372, 0xA54FF53A,
		0x510E527F, 0x9B05688C, 0x1F83D9AB, 0x5BE0CD19 };
	for (int i = 0; i < 8; ++i) CHECK(chk.state.sha256.state[i] == iv[i], "FIPS 180-4 initial hash value");
	CHECK(chk.state.sha256.size == 0, "counter starts at zero");
	static const uint32_t k_first_last[2] = { 0x428A2F98, 0xC67178F2 };
	CHECK(SHA256_K[0] == k_first_last[0] && SHA256_K[63] == k_first_last[1], "round constant table ends");
	WITNESS("reached");
}

/* check interface: sizes, dispatch for CRC32/CRC64 (update == chained lzma_crcNN, finish
 * stores little endian) */
uint32_t lzma_crc32(const uint8_t *buf, size_t size, uint32_t crc) { return crc * 31u + (uint32_t)size + (size ? buf[0] : 7); }
uint64_t lzma_crc64(const uint8_t *buf, size_t size, uint64_t crc) { return crc * 131u + size + (size ? buf[0] : 9); }
void harness_check_iface(void)
{
	static const unsigned sizes[16] = { 0, 4, 4, 4, 8, 8, 8, 16, 16, 16, 32, 32, 32, 64, 64, 64 };
	unsigned id = nd_u32();
	if (id <= 15) CHECK(lzma_check_size((lzma_check)id) == sizes[id], "check size table (format spec 2.1.1.2)");
	else CHECK(lzma_check_size((lzma_check)id) == UINT32_MAX, "unknown check id");
	CHECK(lzma_check_is_supported((lzma_check)id) == (id == 0 || id == 1 || id == 4 || id == 10), "supported checks: None, CRC32, CRC64, SHA-256");
	uint8_t d[4]; nd_bytes(d, 4);
	size_t k = nd_size(); ASSUME(k <= 4);
	lzma_check_state c;
	lzma_check_init(&c, LZMA_CHECK_CRC32);
	lzma_check_update(&c, LZMA_CHECK_CRC32, d, k);
	lzma_check_update(&c, LZMA_CHECK_CRC32, d + k, 4 - k);
	lzma_check_finish(&c, LZMA_CHECK_CRC32);
	uint32_t e = lzma_crc32(d + k, 4 - k, lzma_crc32(d, k, 0));
	CHECK(c.buffer.u8[0] == (uint8_t)e && c.buffer.u8[1] == (uint8_t)(e >> 8) && c.buffer.u8[2] == (uint8_t)(e >> 16) && c.buffer.u8[3] == (uint8_t)(e >> 24), "CRC32 check = chained lzma_crc32 from 0, stored little endian");
	lzma_check_init(&c, LZMA_CHECK_CRC64);
	lzma_check_update(&c, LZMA_CHECK_CRC64, d, k);
	lzma_check_update(&c, LZMA_CHECK_CRC64, d + k, 4 - k);
	lzma_check_finish(&c, LZMA_CHECK_CRC64);
	uint64_t e6 = lzma_crc64(d + k, 4 - k, lzma_crc64(d, k, 0));
	for (int i = 0; i < 8; ++i) CHECK(c.buffer.u8[i] == (uint8_t)(e6 >> (8 * i)), "CRC64 check = chained lzma_crc64 from 0, stored little endian");
	WITNESS("reached");
}
