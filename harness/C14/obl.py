# C14 -- CRC32, CRC64, SHA-256
S = "src/liblzma/"
def ob(name, func, desc, bounds, **kw):
    return Obligation(name=name, src=kw.pop("src", "crc.c"), func=func, desc=desc, bounds_q=bounds, **kw)
OBLIGATIONS = [
    ob("crc32_tables", "harness_tables32", "every lzma_crc32_table[k][x], k=0..7, x=0..255 (symbolic x) equals the bit-at-a-time register after byte x and k zero bytes", "all 2048 entries", unwind=9),
    ob("crc64_tables", "harness_tables64", "every lzma_crc64_table[k][x], k=0..3 equals the bit-at-a-time ECMA-182 register value", "all 1024 entries", unwind=9),
    ob("crc32_bytestep", "harness_bytestep32", "table byte step == 8 bit steps for every (register, byte)", "all 2^40 pairs", unwind=9),
    ob("crc64_bytestep", "harness_bytestep64", "table byte step == 8 bit steps for every (register, byte)", "all 2^72 pairs", unwind=9),
    ob("crc32_linearity", "harness_linear32", "GF(2)-linearity of the register shift and of all 8 tables; four-lane slice identities for tables 7..4 and 3..0 (ingredients of the slice-by-8 composition argument)", "all 32-bit registers / byte pairs", unwind=9),
    ob("crc64_linearity", "harness_linear64", "GF(2)-linearity of the register shift and the 4 tables; four-lane slice identity", "all 64-bit registers / byte pairs", unwind=9),
    ob("crc32_small", "harness_small32", "lzma_crc32 of <= 8 bytes at any alignment == bitwise IEEE definition; two-piece chaining", "n <= 1 (quick) / 3 (thorough), every alignment", unwind=18, qdefs=["SMALLN=1"], tdefs=["SMALLN=3"], unwindset=[("lzma_crc32_generic", r"while \(size-- != 0\)", (4, 7))], timeout_q=280),
    ob("crc64_small", "harness_small64", "lzma_crc64 of <= 4 bytes at any alignment == bitwise ECMA-182 definition; two-piece chaining", "n <= 1 (quick) / 3 (thorough), every alignment", unwind=18, qdefs=["SMALLN=1"], tdefs=["SMALLN=3"], unwindset=[("lzma_crc64_generic", r"while \(size-- != 0\)", (4, 5))], timeout_q=280),
]
OBLIGATIONS.append(ob("crc_register_linearity", "harness_reglinear", "one-byte register shift is GF(2)-linear for CRC32 and CRC64 (ingredient of the slice-by-N composition argument)", "all register pairs", unwind=9, tiers=("thorough",), timeout_t=1800))
# code structure vs slice formula: concrete (alignment, length) cases, symbolic data/initial value
for (bits, cases) in ((32, [(3, 17), (0, 16), (7, 9), (1, 24)]), (64, [(1, 11), (0, 8), (3, 5), (2, 13)])):
    for i, (off, nn) in enumerate(cases):
        OBLIGATIONS.append(ob("crc%d_structure_off%d_len%d" % (bits, off, nn), "harness_struct%d" % bits,
            "real lzma_crc%d_generic on an address with alignment offset %d, length %d equals the slice formula over the same tables (alignment prologue count, lane/table assignment, tail) for every content and initial value; lzma_crc%d == generic" % (bits, off, nn, bits),
            "alignment %d, length %d (concrete), data and initial value symbolic" % (off, nn),
            defs=["OFF=%d" % off, "NN=%d" % nn, "NMAX=40"], unwind=49,
            unwindset=[("lzma_crc%d_generic" % bits, r"while \(\(uintptr_t\)", 9), ("lzma_crc%d_generic" % bits, r"while \(buf < limit\)", 8), ("lzma_crc%d_generic" % bits, r"while \(size-- != 0\)", 9)],
            tiers=("quick", "thorough") if (i == 0 and bits == 32) else ("thorough",), timeout_q=280, timeout_t=1800))
OBLIGATIONS.append(ob("crc_generic_memory_safety", "harness_safety",
    "lzma_crc32_generic and lzma_crc64_generic never read outside buf[0..n) and terminate, for every length <= NMAX and every alignment 0..7 (prologue/size arithmetic cannot wrap)",
    "length <= NMAX (quick 20, thorough 24), alignment 0..7", qdefs=["NMAX=20"], tdefs=["NMAX=24"], qunwind=22, tunwind=26, timeout_q=600, timeout_t=3000, mem_gb=16))
for o in OBLIGATIONS:
    o.functions = ["lzma_crc32_generic", "lzma_crc32", "lzma_crc64_generic", "lzma_crc64", "lzma_crc32_table", "lzma_crc64_table"]
    o.outside = "CLMUL / ARM64 / LoongArch / x86 assembly CRC variants (intrinsics and asm are outside CBMC); full-width generic==bitwise as ONE query (measured: no verdict) - replaced by tables+bytestep+linearity+structure and the stated composition argument"
OBLIGATIONS += [
    Obligation(name="sha256_update_step", src="sha.c", func="harness_sha_update_step",
        qdefs=["LMAX=12"], tdefs=["LMAX=70"], qunwind=66, tunwind=72, defs=["VLOOP_MEM"],
        replace_calls=[("transform", "vstub_transform")], replay=False, timeout_q=280, timeout_t=1800,
        unwindset=[("lzma_sha256_update", r"while \(size > 0\)", (3, 4)), ("vmemcpy", "", 66)],
        functions=["lzma_sha256_update", "process"],
        stubs=["transform() (the SHA-256 compression function) replaced by a logger that records each 64-byte block and perturbs the state; the compression function itself is OUTSIDE the claim (measured: no solver verdict for transform == FIPS reference)"],
        desc="inductive step from ANY buffering state (arbitrary byte counter, pending partial block, hash state): one lzma_sha256_update of <= LMAX bytes hands the compression function exactly the completed 64-byte groups of (pending || data) in order, keeps the rest pending, advances the counter by len. Covers any number and sizes of update calls by induction.",
        bounds_q="one update call, len <= 12 bytes, arbitrary prior state", bounds_t="len <= 70 bytes",
        outside="the SHA-256 compression function (transform)"),
    Obligation(name="sha256_finish_step", src="sha.c", func="harness_sha_finish_step", unwind=66,
        replace_calls=[("transform", "vstub_transform")], replay=False, timeout_q=280,
        functions=["lzma_sha256_finish", "process"],
        stubs=["transform() replaced by the block logger"],
        desc="from ANY buffering state: lzma_sha256_finish emits pending || 0x80 || zeros || 64-bit big-endian bit count in one block, or two when fewer than 9 bytes are free; digest bytes are the big-endian state",
        bounds_q="all pending lengths 0..63, arbitrary counter < 2^60"),
    Obligation(name="sha256_init", src="sha.c", func="harness_sha_init", unwind=10,
        functions=["lzma_sha256_init", "lzma_check_init"], desc="initial hash value equals FIPS 180-4; counter zero", bounds_q="n/a (constants)"),
    Obligation(name="check_interface", src="sha.c", func="harness_check_iface", unwind=10,
        functions=["lzma_check_size", "lzma_check_is_supported", "lzma_check_init", "lzma_check_update", "lzma_check_finish"],
        stubs=["lzma_crc32/lzma_crc64 replaced by an arbitrary chaining function (dispatch/plumbing is the subject here)"],
        desc="lzma_check_size table for all ids; supported set; CRC32/CRC64 check = chained lzma_crcNN from 0 stored little-endian, independent of the split", bounds_q="all ids; 4 data bytes, any split"),
]
