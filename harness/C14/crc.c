/*
 * C14: CRC32 / CRC64 (table-driven generic implementations, crc32_fast.c / crc64_fast.c with
 * their real tables) decomposed into solver-sized obligations; see DESIGN.md C14.
 */
#include "vcommon.h"
#include "crc32_fast.c"
#include "crc64_fast.c"
#include "../../spec/xzspec.h"

/* ---- bit-at-a-time register steps (the definition) ---- */
static uint32_t bit8_32(uint32_t c) { for (int k = 0; k < 8; ++k) c = (c >> 1) ^ ((c & 1) ? 0xEDB88320u : 0); return c; }
static uint64_t bit8_64(uint64_t c) { for (int k = 0; k < 8; ++k) c = (c >> 1) ^ ((c & 1) ? 0xC96C5795D7870F42ull : 0); return c; }

/* (1) every table entry: table[k][x] == register after byte x followed by k zero bytes */
void harness_tables32(void)
{
	uint8_t x = nd_u8();
	uint32_t r = bit8_32(x);
	for (unsigned k = 0; k < 8; ++k) {
		CHECK(lzma_crc32_table[k][x] == r, "crc32 table[k][x] is the polynomial's value");
		r = bit8_32(r);
	}
	WITNESS("reached");
}
void harness_tables64(void)
{
	uint8_t x = nd_u8();
	uint64_t r = bit8_64(x);
	for (unsigned k = 0; k < 4; ++k) {
		CHECK(lzma_crc64_table[k][x] == r, "crc64 table[k][x] is the polynomial's value");
		r = bit8_64(r);
	}
	WITNESS("reached");
}

/* (2) the table byte-step equals eight bit-steps for every register value and data byte */
void harness_bytestep32(void)
{
	uint32_t c = nd_u32(); uint8_t b = nd_u8();
	CHECK((lzma_crc32_table[0][(c ^ b) & 0xFF] ^ (c >> 8)) == bit8_32(c ^ b), "crc32 byte step");
	WITNESS("reached");
}
void harness_bytestep64(void)
{
	uint64_t c = nd_u64(); uint8_t b = nd_u8();
	CHECK((lzma_crc64_table[0][(c ^ b) & 0xFF] ^ (c >> 8)) == bit8_64(c ^ b), "crc64 byte step");
	WITNESS("reached");
}

/* (2b) linearity facts used by the slice-by-N composition argument */
void harness_linear32(void)
{
	uint8_t x = nd_u8(), y = nd_u8();
	for (unsigned k = 0; k < 8; ++k)
		CHECK(lzma_crc32_table[k][x ^ y] == (lzma_crc32_table[k][x] ^ lzma_crc32_table[k][y]), "crc32 tables are linear");
	WITNESS("reached");
}
void harness_linear64(void)
{
	uint8_t x = nd_u8(), y = nd_u8();
	for (unsigned k = 0; k < 4; ++k)
		CHECK(lzma_crc64_table[k][x ^ y] == (lzma_crc64_table[k][x] ^ lzma_crc64_table[k][y]), "crc64 tables are linear");
	WITNESS("reached");
}
void harness_reglinear(void)
{
	uint32_t a = nd_u32(), b = nd_u32();
	CHECK(bit8_32(a ^ b) == (bit8_32(a) ^ bit8_32(b)), "crc32 register byte shift is GF(2)-linear");
	uint64_t c = nd_u64(), d = nd_u64();
	CHECK(bit8_64(c ^ d) == (bit8_64(c) ^ bit8_64(d)), "crc64 register byte shift is GF(2)-linear");
	WITNESS("reached");
}

/* (3) code structure: the real generic function on buf+off (every alignment), every length
 * up to NMAX and every initial value equals the textbook slice formula over the same tables:
 * byte steps until 8-(4-)byte alignment (only when the length exceeds 8 (4)), then whole
 * blocks with lane k of the block using table[N-1-k], then byte steps for the tail. */
#ifndef NMAX
#define NMAX 20
#endif
#ifndef SMALLN
#define SMALLN 3
#endif
#ifndef OFF
#define OFF 3
#endif
#ifndef NN
#define NN 17
#endif
static uint8_t cbuf[NMAX + 8] __attribute__((aligned(8)));

static void struct32(size_t off, size_t n);
void harness_struct32(void)
{
	/* alignment is a compile-time constant per obligation (-DOFF=0..7); every length
	 * 0..NMAX is enumerated concretely so that each comparison is loop-free for the
	 * solver; buffer contents and the initial value stay symbolic */
	/* The tables are made ARBITRARY here: the obligation pins which table entry is used
	 * for which input byte and how the register is combined, independently of the table
	 * contents (those are decided by crc32_tables/crc32_bytestep). */
	for (size_t i = 0; i < NMAX + 8; ++i) cbuf[i] = nd_u8();
	struct32(OFF, NN);
	WITNESS("reached");
}
static void struct32(size_t off, size_t n)
{
	uint32_t init = nd_u32();
	const uint8_t *p = cbuf + off;
	uint32_t got = lzma_crc32_generic(p, n, init);
	/* formula */
	uint32_t c = ~init;
	size_t i = 0, rem = n;
	if (n > 8) {
		while (((off + i) & 7) != 0) { c = lzma_crc32_table[0][(c ^ p[i]) & 0xFF] ^ (c >> 8); ++i; --rem; }
		while (rem >= 8) {
			uint32_t w0 = c ^ ((uint32_t)p[i] | (uint32_t)p[i+1] << 8 | (uint32_t)p[i+2] << 16 | (uint32_t)p[i+3] << 24);
			uint32_t w1 = (uint32_t)p[i+4] | (uint32_t)p[i+5] << 8 | (uint32_t)p[i+6] << 16 | (uint32_t)p[i+7] << 24;
			c = lzma_crc32_table[7][w0 & 0xFF] ^ lzma_crc32_table[6][(w0 >> 8) & 0xFF]
			  ^ lzma_crc32_table[5][(w0 >> 16) & 0xFF] ^ lzma_crc32_table[4][w0 >> 24]
			  ^ lzma_crc32_table[3][w1 & 0xFF] ^ lzma_crc32_table[2][(w1 >> 8) & 0xFF]
			  ^ lzma_crc32_table[1][(w1 >> 16) & 0xFF] ^ lzma_crc32_table[0][w1 >> 24];
			i += 8; rem -= 8;
		}
	}
	while (rem > 0) { c = lzma_crc32_table[0][(c ^ p[i]) & 0xFF] ^ (c >> 8); ++i; --rem; }
	CHECK(got == ~c, "lzma_crc32_generic equals the slice-by-8 formula (alignment prologue, lanes, tail)");
	CHECK(lzma_crc32(p, n, init) == got, "lzma_crc32 dispatches to the generic implementation in this configuration");
}

static void struct64(size_t off, size_t n);
void harness_struct64(void)
{
	for (size_t i = 0; i < NMAX + 8; ++i) cbuf[i] = nd_u8();
	struct64(OFF, NN);
	WITNESS("reached");
}
static void struct64(size_t off, size_t n)
{
	uint64_t init = nd_u64();
	const uint8_t *p = cbuf + off;
	uint64_t got = lzma_crc64_generic(p, n, init);
	uint64_t c = ~init;
	size_t i = 0, rem = n;
	if (n > 4) {
		while (((off + i) & 3) != 0) { c = lzma_crc64_table[0][(c ^ p[i]) & 0xFF] ^ (c >> 8); ++i; --rem; }
		while (rem >= 4) {
			uint32_t w = (uint32_t)c ^ ((uint32_t)p[i] | (uint32_t)p[i+1] << 8 | (uint32_t)p[i+2] << 16 | (uint32_t)p[i+3] << 24);
			c = lzma_crc64_table[3][w & 0xFF] ^ lzma_crc64_table[2][(w >> 8) & 0xFF]
			  ^ (c >> 32) ^ lzma_crc64_table[1][(w >> 16) & 0xFF] ^ lzma_crc64_table[0][w >> 24];
			i += 4; rem -= 4;
		}
	}
	while (rem > 0) { c = lzma_crc64_table[0][(c ^ p[i]) & 0xFF] ^ (c >> 8); ++i; --rem; }
	CHECK(got == ~c, "lzma_crc64_generic equals the slice-by-4 formula (alignment prologue, lanes, tail)");
	CHECK(lzma_crc64(p, n, init) == got, "lzma_crc64 dispatches to the generic implementation in this configuration");
}

/* (4) short inputs end to end against the bit-at-a-time definition, incl. chaining.
 * Lengths and split points are enumerated concretely (so that symex prunes the slice path),
 * contents and alignment are symbolic. */
void harness_small32(void)
{
	size_t off = nd_size();
	ASSUME(off < 8);
	for (size_t i = 0; i < 16; ++i) cbuf[i] = nd_u8();
	const uint8_t *p = cbuf + off;
	for (size_t n = 0; n <= SMALLN; ++n) {
		uint32_t whole = lzma_crc32(p, n, 0);
		CHECK(whole == spec_crc32(p, n), "crc32 of a short buffer equals the IEEE 802.3 definition");
		for (size_t k = 0; k <= n; ++k)
			CHECK(lzma_crc32(p + k, n - k, lzma_crc32(p, k, 0)) == whole, "crc32 in two pieces equals one piece");
	}
	WITNESS("reached");
}
void harness_small64(void)
{
	size_t off = nd_size();
	ASSUME(off < 8);
	for (size_t i = 0; i < 16; ++i) cbuf[i] = nd_u8();
	const uint8_t *p = cbuf + off;
	for (size_t n = 0; n <= SMALLN; ++n) {
		uint64_t whole = lzma_crc64(p, n, 0);
		CHECK(whole == spec_crc64(p, n), "crc64 of a short buffer equals the ECMA-182 definition");
		for (size_t k = 0; k <= n; ++k)
			CHECK(lzma_crc64(p + k, n - k, lzma_crc64(p, k, 0)) == whole, "crc64 in two pieces equals one piece");
	}
	WITNESS("reached");
}

/* (5) memory safety and termination of the generic functions for EVERY length <= NMAX and
 * every alignment (results ignored): the alignment prologue and the block loop never read
 * outside buf[0..n) and the length arithmetic never wraps. */
void harness_safety(void)
{
	size_t off = nd_size(), n = nd_size();
	ASSUME(off < 8 && n <= NMAX);
	/* the object ends exactly at the end of the caller's buffer: any read past
	 * buf[n-1] is an out-of-bounds access */
	uint8_t *b = malloc(off + n);
	VMALLOC_NONNULL(b);
	uint64_t r = lzma_crc64_generic(b + off, n, nd_u64());
	uint32_t r2 = lzma_crc32_generic(b + off, n, nd_u32());
	(void)r; (void)r2;
	if (n == NMAX) WITNESS("longest input");
	free(b);
}
