# C03 -- decoders accept exactly the valid streams (container layers)
S = "src/liblzma/"
HDR_UNITS = [S + x for x in ["common/stream_flags_decoder.c", "common/stream_flags_common.c",
    "common/block_header_decoder.c", "common/filter_flags_decoder.c", "common/filter_decoder.c",
    "common/filter_common.c", "common/vli_decoder.c", "common/block_util.c", "check/check.c",
    "common/common.c", "lzma/lzma2_decoder.c", "lzma/lzma_decoder.c", "simple/simple_decoder.c",
    "delta/delta_decoder.c", "delta/delta_common.c"]]
CRC = [S + "check/crc32_fast.c"]
OBLIGATIONS = [
    Obligation(name="stream_header_vs_spec", src="hdr.c", func="harness_stream_header", unwind=13,
        units=HDR_UNITS + CRC, functions=["lzma_stream_header_decode", "stream_flags_decode", "lzma_crc32"],
        desc="every 12-byte string: lzma_stream_header_decode returns OK/FORMAT/DATA/OPTIONS exactly as the "
             "spec acceptor (independent bitwise CRC32) classifies it; decoded flags equal",
        bounds_q="all 2^96 inputs"),
    Obligation(name="stream_footer_vs_spec", src="hdr.c", func="harness_stream_footer", unwind=13,
        units=HDR_UNITS, defs=["BH_STUB_CRC", "lzma_crc32=vstub_crc32"],
        stubs=["lzma_crc32 abstracted to one arbitrary 32-bit value seen by decoder and spec alike (the Stream Header obligation keeps the real lzma_crc32 against the bitwise definition)"], functions=["lzma_stream_footer_decode", "stream_flags_decode", "lzma_crc32"],
        desc="every 12-byte string: lzma_stream_footer_decode vs spec acceptor; Backward Size = (stored+1)*4 "
             "as a 64-bit value over the whole stored range",
        bounds_q="all 2^96 inputs"),
    Obligation(name="stream_flags_compare", src="hdr.c", func="harness_flags_compare", unwind=3,
        units=HDR_UNITS, functions=["lzma_stream_flags_compare"],
        desc="lzma_stream_flags_compare returns OK only for version 0, equal valid checks, equal known backward sizes",
        bounds_q="all field values"),
    Obligation(name="filter_chain_validation", src="hdr.c", func="harness_chain", unwind=8,
        units=HDR_UNITS, functions=["lzma_validate_chain"], unwindset=[("lzma_validate_chain", r"features\[j\]", 16)],
        desc="lzma_validate_chain (used by every raw/Block coder init): accepted exactly for 1..4 known filters with LZMA1/LZMA2 last and only last",
        bounds_q="chains of 0..5 filters over all 12 supported ids + an unknown id"),
]
for hs, tiers, to in [(8, ("quick", "thorough"), 240), (12, ("quick", "thorough"), 280),
                      (16, ("thorough",), 1800), (20, ("thorough",), 1800), (24, ("thorough",), 1800)]:
    OBLIGATIONS.append(Obligation(
        name="block_header_vs_spec_%d" % hs, src="hdr.c", func="harness_block_header",
        defs=["HS=%d" % hs, "BH_STUB_CRC", "lzma_crc32=vstub_crc32"], unwind=hs + 2, units=HDR_UNITS,
        tiers=tiers, timeout_q=to, timeout_t=to, flags=["--object-bits", "10"],
        unwindset=[("decoder_find", "", 16)],
        functions=["lzma_block_header_decode", "lzma_filter_flags_decode", "lzma_properties_decode",
                   "lzma_vli_decode", "lzma_block_unpadded_size", "lzma_lzma2_props_decode",
                   "lzma_simple_props_decode", "lzma_delta_props_decode", "lzma_lzma_props_decode",
                   "lzma_filters_free"],
        stubs=["lzma_crc32 abstracted: one arbitrary 32-bit value stands for the CRC32 of the header bytes, seen by both the real decoder and the spec parser (over-approximation; real CRC32 == IEEE is C14)"],
        desc="every %d-byte string as a Block Header (version 0/1, every check id): accepted exactly when the "
             "spec parser says valid and supported (flags, reserved bits, minimal VLIs, compressed size "
             "non-zero and unpadded size in range, 1-4 Filter Flags with valid properties, zero padding, "
             "CRC32); decoded sizes, filter ids and options equal; nothing left allocated on error" % hs,
        bounds_q="all strings of header size %d" % hs))
# payload-side pieces decided elsewhere that belong to "decode as specified"
OBLIGATIONS += reuse("C15", r"delta_reinit|delta_roundtrip|delta_reference")    # delta decoder state does not leak between Blocks
OBLIGATIONS += reuse("C04", r"dict_repeat_safety|dict_wrap_step|dict_put_get_step|lzma_decoder_reset|microlzma_wrapper")   # LZ dictionary primitives, state reset, MicroLZMA wrapper
OBLIGATIONS += reuse("C05", r"block_body_rules|index_hash_exact_(1call|sliced)")   # Block body and Index accepted exactly when valid
# LZMA2 chunk layer under the real LZ decoder driver, vs the chunk grammar (also serves C04/C05/C06)
L2_UNITS = [S + "common/common.c", S + "lzma/lzma_decoder.c"]
OBLIGATIONS.append(Obligation(
    name="lzma2_chunk_layer", src="lzma2dec.c", func="harness_lzma2_chunks", units=L2_UNITS,
    defs=["VLOOP_MEM", "VLOOP_MEM_ONECHECK", "STUB_BUFCPY"], hdefs=["lzma_bufcpy=vstub_bufcpy"],
    qdefs=["NIN=8", "CALLS=1"], tdefs=["NIN=10", "CALLS=1"],
    qunwind=11, tunwind=13, timeout_q=700, timeout_t=3600, mem_gb=12,
    unwindset=[("decode_buffer", "", (3, 4))],
    fp_restrict=["decode_buffer.function_pointer_call.1/lzma2_decode",
                 "lzma2_decode.function_pointer_call.1/stub_reset",
                 "lzma2_decode.function_pointer_call.2/stub_set_uncompressed",
                 "lzma2_decode.function_pointer_call.3/stub_reset",
                 "lzma2_decode.function_pointer_call.4/stub_code"],
    functions=["lzma2_decode", "decode_buffer", "lz_decoder_reset", "dict_write", "dict_reset",
               "lzma_lzma_lclppb_decode"],
    stubs=["LZMA1 payload decoder (coder->lzma.code/reset/set_uncompressed): chunk i needs exactly want[i] "
           "(arbitrary, 1..NIN) input bytes, then reports end of chunk or, arbitrarily, a data error; it "
           "writes nothing to the dictionary; what it is told is compared on line with the parser's log",
           "lzma_bufcpy (called by dict_write): same position arithmetic, but instead of moving bytes into "
           "the 600-byte dictionary it records which input index one arbitrary (universally quantified) "
           "output offset was copied from; the real lzma_bufcpy is exercised by C15's streaming obligations, "
           "the dictionary-to-output copy by decode_buffer is real but its bytes are not compared here"],
    desc="LZMA2 chunk layer (lzma2_decode under the real decode_buffer, from the state lzma2_decoder_init sets, "
         "with and without preset dictionary): for EVERY input and every slicing of input and output space the "
         "final status is STREAM_END / DATA_ERROR / OK(incomplete) exactly as an independent one-pass "
         "parser of the chunk grammar says (control byte classes, mandatory first dictionary reset, "
         "mandatory properties after a dictionary reset, lc+lp<=4, chunk compressed size must match what "
         "the LZMA data used), input consumed and the source of every output byte (uncompressed chunks) "
         "equal the parser's, the LZMA decoder is told the same state resets, lc/lp/pb and chunk sizes in "
         "the same order, dictionary resets happen where the control bytes say; no out-of-bounds access",
    bounds_q="all inputs of <= 8 bytes; one symbolic input/output cut point + a final call with everything; 16-byte dictionary (no wrap: see dict_wrap_step)",
    bounds_t="all inputs of <= 10 bytes; one symbolic cut point + final call",
    outside="the LZMA1 payload decoder itself (lzma_decode: symbolic execution does not finish, see DESIGN.md); chunk streams longer than the bound; more than two calls"))
# Index decoder (index_decoder.c) vs a one-pass parser of the Index field (also C04/C05/C06/C09)
ID_UNITS = [S + "common/common.c", S + "common/vli_decoder.c"]
ID_HDEFS = ["lzma_index_init=vstub_index_init", "lzma_index_end=vstub_index_end", "lzma_index_append=vstub_index_append",
            "lzma_index_prealloc=vstub_index_prealloc", "lzma_index_padding_size=vstub_index_padding_size",
            "lzma_index_memusage=vstub_index_memusage"]
ID_STUBS = ["lzma_index container (index.c, decided in C13): recorder with the same interface (init may fail, append may fail with MEM_ERROR, memusage = monotone model 1000+16*blocks)",
            "lzma_crc32: coverage tracker (value = number of bytes fed if fed contiguously from the first byte; poisoned otherwise)"]
OBLIGATIONS += [
    Obligation(name="index_decoder_vs_spec", src="idxdec.c", func="harness_index_decoder", units=ID_UNITS, hdefs=ID_HDEFS,
        defs=["lzma_crc32=vstub_crc32"], qdefs=["NIN=10", "CALLS=0"], tdefs=["NIN=12", "CALLS=0"], qunwind=12, tunwind=14,
        unwindset=[("lzma_vli_decode", "", 10), ("ovli", "", 10), ("index_decode", "^1", 5)], timeout_q=600, timeout_t=3000, mem_gb=12,
        fp_restrict=["harness_index_decoder.function_pointer_call.1/index_decoder_end", "harness_index_decoder.function_pointer_call.2/index_decode",
                     "harness_index_decoder.function_pointer_call.3/index_decoder_memconfig", "harness_index_decoder.function_pointer_call.4/index_decoder_end"],
        functions=["lzma_index_decoder_init", "index_decoder_reset", "index_decode", "index_decoder_end", "index_decoder_memconfig", "lzma_vli_decode"],
        stubs=ID_STUBS,
        desc="Index decoder as a coder (init, index_decode sliced, memconfig, end): for EVERY byte string and memory limit the "
             "status is OK(incomplete) / STREAM_END / DATA_ERROR / MEMLIMIT_ERROR exactly as an independent one-pass parser of "
             "the Index field says (indicator, minimal VLIs, Unpadded Size range, zero padding, CRC32 over exactly the bytes "
             "before it, memory gate right after the count); input consumed independent of slicing; the Records appended are "
             "the decoded VLIs in order; *i is NULL until the verified Index is published; lzma_end frees an unfinished index "
             "exactly once and never a published one; allocation failures -> MEM_ERROR with nothing published",
        bounds_q="all byte strings of <= 10 bytes (up to 2 Records of 1-byte VLIs or 1 Record of longer ones), all 64-bit memory limits, one call",
        bounds_t="all byte strings of <= 12 bytes (two Records), one call",
        outside="the lzma_index container behind the recorder (C13); Indexes beyond the bound"),
    Obligation(name="index_decoder_sliced", tiers=("thorough",), src="idxdec.c", func="harness_index_decoder", units=ID_UNITS, hdefs=ID_HDEFS,
        defs=["lzma_crc32=vstub_crc32", "NIN=10", "CALLS=1"], unwind=12,
        unwindset=[("lzma_vli_decode", "", 10), ("ovli", "", 10), ("index_decode", "^1", 5)], timeout_q=600, timeout_t=3000, mem_gb=12,
        fp_restrict=["harness_index_decoder.function_pointer_call.1/index_decoder_end", "harness_index_decoder.function_pointer_call.2/index_decode",
                     "harness_index_decoder.function_pointer_call.3/index_decoder_memconfig", "harness_index_decoder.function_pointer_call.4/index_decoder_end"],
        functions=["lzma_index_decoder_init", "index_decoder_reset", "index_decode", "index_decoder_end", "index_decoder_memconfig", "lzma_vli_decode"],
        stubs=ID_STUBS,
        desc="Index decoder as a coder (init, index_decode sliced, memconfig, end): for EVERY byte string and memory limit the "
             "status is OK(incomplete) / STREAM_END / DATA_ERROR / MEMLIMIT_ERROR exactly as an independent one-pass parser of "
             "the Index field says (indicator, minimal VLIs, Unpadded Size range, zero padding, CRC32 over exactly the bytes "
             "before it, memory gate right after the count); input consumed independent of slicing; the Records appended are "
             "the decoded VLIs in order; *i is NULL until the verified Index is published; lzma_end frees an unfinished index "
             "exactly once and never a published one; allocation failures -> MEM_ERROR with nothing published",
        bounds_q="all byte strings of <= 10 bytes, cut at an arbitrary point into two calls (measured: no verdict within 1300 s on this machine; reported as INCONCLUSIVE when it does not finish)",
        bounds_t="same strings, cut at an arbitrary point into two calls (measured: > 1300 s; reported as inconclusive if it does not finish)",
        outside="the lzma_index container behind the recorder (C13); Indexes beyond the bound"),
    Obligation(name="index_buffer_decode_vs_spec", src="idxdec.c", func="harness_index_buffer_decode", units=ID_UNITS, hdefs=ID_HDEFS,
        defs=["lzma_crc32=vstub_crc32"], qdefs=["NIN=10"], tdefs=["NIN=16"], qunwind=12, tunwind=18,
        unwindset=[("lzma_vli_decode", "", 10), ("ovli", "", 10), ("index_decode", "^1", 5)], timeout_q=600, timeout_t=3000, mem_gb=12,
        functions=["lzma_index_buffer_decode", "index_decoder_reset", "index_decode", "lzma_vli_decode"], stubs=ID_STUBS,
        desc="lzma_index_buffer_decode (single call): LZMA_OK exactly for a complete valid Index field (position after the CRC32, "
             "Records as decoded); otherwise *i == NULL, the partial index freed, *in_pos unchanged, truncated input -> DATA_ERROR, "
             "MEMLIMIT_ERROR sets *memlimit to the amount needed",
        bounds_q="all byte strings of <= 10 bytes, all memory limits", bounds_t="<= 16 bytes",
        outside="the lzma_index container behind the recorder (C13)"),
]
