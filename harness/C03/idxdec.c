/*
 * C03 / C04 / C05 / C06 / C09: the Index decoder (index_decoder.c: lzma_index_decoder_init +
 * index_decode + index_decoder_end, and the single-call lzma_index_buffer_decode) on EVERY byte
 * string of up to NIN bytes, in every slicing and for every memory limit, against an independent
 * one-pass parser of the Index field (xz-file-format 4.x: Index Indicator 0x00, Number of Records,
 * Records = minimal VLIs (Unpadded Size in [5, 2^63-4], Uncompressed Size), zero Index Padding to a
 * multiple of four, CRC32).
 *
 * The lzma_index container (index.c; decided on its own in C13) is replaced by a recorder with
 * the same interface: init/append/prealloc/padding_size/memusage/end.  lzma_crc32 is a coverage
 * tracker (its value is the number of bytes fed if they were fed contiguously from the first
 * byte; poisoned otherwise).
 */
#include "vcommon.h"
#include "../../spec/xzspec.h"

static const uint8_t *g_crc_base;
static size_t g_crc_fed;
static bool g_crc_bad;
uint32_t vstub_crc32(const uint8_t *buf, size_t size, uint32_t crc)
{
	if (buf != g_crc_base + g_crc_fed || crc != (uint32_t)g_crc_fed) g_crc_bad = true;
	g_crc_fed += size;
	return g_crc_bad ? 0xDEADBEEFu : (uint32_t)g_crc_fed;
}

#include "index_decoder.c"

#ifndef NIN
#define NIN 10
#endif
#ifndef CALLS
#define CALLS 1
#endif
#define KCAP 4

/* ---- recorder in place of index.c ---- */
static struct {
	bool live, ended;
	unsigned inits, n;
	lzma_vli unp[KCAP], unc[KCAP];
	lzma_vli prealloc;
	size_t list_size;
} G;
static bool g_init_fails, g_append_fails;

lzma_index *vstub_index_init(const lzma_allocator *a)
{
	(void)a;
	if (g_init_fails) return NULL;
	CHECK(!G.live, "no second lzma_index while one is live");
	G.live = true; G.ended = false; ++G.inits; G.n = 0; G.list_size = 0;
	return (lzma_index *)&G;
}
void vstub_index_end(lzma_index *i, const lzma_allocator *a)
{
	(void)a;
	if (i == NULL) return;
	CHECK((void *)i == (void *)&G && G.live, "only a live index is freed, once");
	G.live = false; G.ended = true;
}
lzma_ret vstub_index_append(lzma_index *i, const lzma_allocator *a, lzma_vli unpadded, lzma_vli uncompressed)
{
	(void)a;
	CHECK((void *)i == (void *)&G && G.live, "append to the live index");
	CHECK(unpadded >= 5 && unpadded <= (LZMA_VLI_MAX & ~LZMA_VLI_C(3)) && uncompressed <= LZMA_VLI_MAX, "only validated sizes reach lzma_index_append");
	if (g_append_fails) return LZMA_MEM_ERROR;
	if (G.n < KCAP) { G.unp[G.n] = unpadded; G.unc[G.n] = uncompressed; }
	++G.n;
	G.list_size += spec_vli_size(unpadded) + spec_vli_size(uncompressed);
	return LZMA_OK;
}
void vstub_index_prealloc(lzma_index *i, lzma_vli records)
{
	CHECK((void *)i == (void *)&G && G.live, "prealloc on the live index");
	G.prealloc = records;
}
uint32_t vstub_index_padding_size(const lzma_index *i)
{
	CHECK((const void *)i == (const void *)&G && G.live, "padding of the live index");
	return (uint32_t)((4 - ((1 + spec_vli_size(G.n) + G.list_size) & 3)) & 3);
}
uint64_t vstub_index_memusage(lzma_vli streams, lzma_vli blocks)
{
	(void)streams;
	return blocks > (LZMA_VLI_C(1) << 40) ? UINT64_MAX : 1000 + 16 * blocks;     /* monotone model */
}

/* ---- one-pass parser (single exit: every step guarded by !done) ---- */
struct ires { lzma_ret status; size_t pos; unsigned n; lzma_vli unp[KCAP], unc[KCAP]; lzma_vli count; bool count_known; };
/* 1 = value read, 0 = input ends inside it, -1 = not a minimal VLI of <= 9 bytes */
static int ovli(const uint8_t *in, size_t n, size_t *p, lzma_vli *v)
{
	lzma_vli r = 0;
	int res = 2;
	for (unsigned k = 0; k < 9; ++k) if (res == 2) {
		if (*p >= n) res = 0;
		else {
			const uint8_t b = in[(*p)++];
			r |= (lzma_vli)(b & 0x7F) << (7 * k);
			if (!(b & 0x80)) res = (b == 0 && k > 0) ? -1 : 1;
			else if (k == 8) res = -1;
		}
	}
	*v = r;
	return res;
}
static void spec_index(const uint8_t *in, size_t n, uint64_t memlimit, struct ires *r)
{
	size_t p = 0; bool done = false;
	r->n = 0; r->count_known = false; r->count = 0; r->status = LZMA_PROG_ERROR; r->pos = 0;
#define FIN(st) do { done = true; r->status = (st); r->pos = p; } while (0)
	if (n == 0) FIN(LZMA_OK);
	if (!done) { if (in[p++] != 0x00) FIN(LZMA_DATA_ERROR); }
	size_t list = 0;
	if (!done) {
		int k = ovli(in, n, &p, &r->count);
		if (k == 0) FIN(LZMA_OK); else if (k < 0) FIN(LZMA_DATA_ERROR);
		else {
			r->count_known = true;
			if (vstub_index_memusage(1, r->count) > memlimit) FIN(LZMA_MEMLIMIT_ERROR);
		}
	}
	for (unsigned i = 0; i < KCAP; ++i) if (!done && i < r->count) {
		lzma_vli u = 0, s = 0;
		int k = ovli(in, n, &p, &u);
		if (k == 0) FIN(LZMA_OK); else if (k < 0) FIN(LZMA_DATA_ERROR);
		else if (u < 5 || u > (LZMA_VLI_MAX & ~LZMA_VLI_C(3))) FIN(LZMA_DATA_ERROR);
		if (!done) {
			k = ovli(in, n, &p, &s);
			if (k == 0) FIN(LZMA_OK); else if (k < 0) FIN(LZMA_DATA_ERROR);
			else { r->unp[i] = u; r->unc[i] = s; r->n = i + 1; list += spec_vli_size(u) + spec_vli_size(s); }
		}
	}
	/* counts above KCAP are excluded by the callers (ASSUME after this function) */
	const size_t pad = (4 - ((1 + spec_vli_size(r->count) + list) & 3)) & 3;
	for (unsigned i = 0; i < 3; ++i) if (!done && i < pad) {
		if (p >= n) FIN(LZMA_OK); else if (in[p++] != 0x00) FIN(LZMA_DATA_ERROR);
	}
	const uint32_t crc = (uint32_t)p;
	for (unsigned i = 0; i < 4; ++i) if (!done) {
		if (p >= n) FIN(LZMA_OK); else if (in[p++] != (uint8_t)(crc >> (8 * i))) FIN(LZMA_DATA_ERROR);
	}
	if (!done) FIN(LZMA_STREAM_END);
}

static void compare_records(const struct ires *sp)
{
	CHECK(G.n == sp->n, "the lzma_index holds exactly the Records of the Index field");
	unsigned e = nd_u32(); ASSUME(e < KCAP);
	if (e < sp->n)
		CHECK(G.unp[e] == sp->unp[e] && G.unc[e] == sp->unc[e], "Record sizes are the decoded VLIs, in order");
}

void harness_index_decoder(void)
{
	uint8_t in[NIN];
	nd_bytes(in, NIN);
	g_crc_base = in;
	size_t n = nd_size(); ASSUME(n <= NIN);
	uint64_t memlimit = nd_u64();
	g_init_fails = nd_bool(); g_append_fails = nd_bool();
	static struct ires sp;
	spec_index(in, n, memlimit, &sp);
	ASSUME(!sp.count_known || sp.count <= KCAP || sp.status == LZMA_MEMLIMIT_ERROR);   /* recorder capacity; larger counts stop at the memlimit gate or run out of input anyway */

	lzma_index *result = (lzma_index *)&in;      /* garbage: must be overwritten */
	lzma_next_coder next = LZMA_NEXT_CODER_INIT;
	lzma_ret r = lzma_index_decoder_init(&next, NULL, &result, memlimit);
	if (g_init_fails) {
		CHECK(r == LZMA_MEM_ERROR && result == NULL, "allocation failure of the lzma_index: MEM_ERROR, *i == NULL");
		next.end(next.coder, NULL);
		return;
	}
	CHECK(r == LZMA_OK && result == NULL, "init clears *i");

	size_t in_pos = 0;
	lzma_ret ret = LZMA_OK;
	for (unsigned k = 0; k < CALLS + 1; ++k) if (ret == LZMA_OK && in_pos < n) {
		size_t in_end = n;
		if (k < CALLS) { in_end = nd_size(); ASSUME(in_end >= in_pos && in_end <= n); }
		const size_t ip0 = in_pos;
		ret = next.code(next.coder, NULL, in, &in_pos, in_end, NULL, NULL, 0, LZMA_RUN);
		CHECK(in_pos >= ip0 && in_pos <= in_end, "input position stays inside the slice");
		CHECK(ret == LZMA_OK || ret == LZMA_STREAM_END || ret == LZMA_DATA_ERROR || ret == LZMA_MEMLIMIT_ERROR || ret == LZMA_MEM_ERROR, "documented codes only");
	}
	if (g_append_fails && ret == LZMA_MEM_ERROR) {
		CHECK(result == NULL, "no Index is published on failure");
		WITNESS("append failure");
	} else {
		CHECK(ret == sp.status, "OK while incomplete, STREAM_END exactly for a valid Index field, DATA_ERROR / MEMLIMIT_ERROR exactly where the format rules and the limit say -- for every slicing");
		if (ret != LZMA_DATA_ERROR && ret != LZMA_MEM_ERROR)
			CHECK(in_pos == sp.pos, "input consumed is fixed by the data, not by the slicing");
	}
	if (ret == LZMA_STREAM_END) {
		CHECK(result == (lzma_index *)&G && G.live, "the finished lzma_index is handed to the caller");
		compare_records(&sp);
		CHECK(G.prealloc == sp.count, "preallocation hint is the Number of Records");
		WITNESS("valid Index decoded");
#if NIN >= 12
		if (sp.n == 2) WITNESS("two Records");
#endif
	} else {
		CHECK(result == NULL, "nothing is published before the Index is complete and verified");
	}
	if (ret == LZMA_MEMLIMIT_ERROR) {
		uint64_t mu = 0, old = 0;
		CHECK(next.memconfig(next.coder, &mu, &old, 0) == LZMA_OK && mu == vstub_index_memusage(1, sp.count) && old == (memlimit == 0 ? 1 : memlimit), "memconfig reports the need and the current limit (a limit of 0 is treated as 1)");
		WITNESS("memory limit gate");
	}
	if (ret == LZMA_DATA_ERROR) WITNESS("rejected");
	/* ending the coder frees the unfinished index exactly once; a finished one belongs to the caller */
	next.end(next.coder, NULL);
	if (ret == LZMA_STREAM_END) CHECK(G.live, "a published lzma_index is not freed by lzma_end");
	else CHECK(!G.live && G.inits == 1, "an unfinished lzma_index is freed by lzma_end");
}

void harness_index_buffer_decode(void)
{
	uint8_t in[NIN];
	nd_bytes(in, NIN);
	g_crc_base = in;
	size_t n = nd_size(); ASSUME(n <= NIN);
	uint64_t memlimit = nd_u64(); const uint64_t memlimit0 = memlimit;
	g_append_fails = nd_bool();
	static struct ires sp;
	spec_index(in, n, memlimit, &sp);
	ASSUME(!sp.count_known || sp.count <= KCAP || sp.status == LZMA_MEMLIMIT_ERROR);
	lzma_index *result = (lzma_index *)&in;
	size_t in_pos = 0;
	lzma_ret ret = lzma_index_buffer_decode(&result, &memlimit, NULL, in, &in_pos, n);
	if (ret == LZMA_OK) {
		CHECK(sp.status == LZMA_STREAM_END, "single-call decoding succeeds only for a complete valid Index field");
		CHECK(in_pos == sp.pos && result == (lzma_index *)&G && G.live, "position after the CRC32, index handed over");
		compare_records(&sp);
		WITNESS("valid Index decoded");
	} else {
		CHECK(result == NULL && !G.live && in_pos == 0, "on failure: *i == NULL, the partial index is freed, *in_pos unchanged");
		if (!(g_append_fails && ret == LZMA_MEM_ERROR)) {
			CHECK(sp.status != LZMA_STREAM_END, "a valid Index is not refused");
			CHECK(ret == (sp.status == LZMA_OK ? LZMA_DATA_ERROR : sp.status), "truncated input is DATA_ERROR for the single-call decoder; otherwise the same verdict");
		}
		if (ret == LZMA_MEMLIMIT_ERROR) {
			CHECK(memlimit == vstub_index_memusage(1, sp.count), "*memlimit is set to the amount needed");
			WITNESS("memory limit");
		} else {
			CHECK(memlimit == memlimit0, "*memlimit untouched otherwise");
		}
		if (sp.status == LZMA_OK) WITNESS("truncated");
	}
}
