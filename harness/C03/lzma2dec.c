/*
 * C03 / C04 / C05 / C06: the LZMA2 chunk layer (lzma2_decoder.c lzma2_decode) under the real
 * LZ decoder driver (lz_decoder.c decode_buffer / lz_decode, lz_decoder.h dict_write, dict_reset),
 * from the state lzma2_decoder_init() establishes, on EVERY input of up to NIN bytes delivered
 * in an arbitrary slicing of input and output space, compared with an independent one-pass
 * parser of the LZMA2 chunk grammar:
 *
 *   0x00                      end marker
 *   0x01 / 0x02  S1 S0        uncompressed chunk of (S1<<8|S0)+1 bytes; 0x01 resets the dictionary
 *   0x80..0xFF   U1 U0 C1 C0 [P]   LZMA chunk: uncompressed size ((ctl&0x1F)<<16|U1<<8|U0)+1,
 *                              compressed size (C1<<8|C0)+1; 0xA0.. state reset, 0xC0.. new
 *                              properties byte P (pb*45+lp*9+lc, lc+lp<=4), 0xE0.. dictionary reset
 *   anything else, a chunk that does not reset the dictionary when one is required (first chunk),
 *   an LZMA chunk without properties when they are required (first LZMA chunk, or first after a
 *   dictionary reset): corrupt.
 *
 * The LZMA1 payload decoder behind coder->lzma.{code,reset,set_uncompressed} is a stub with
 * the contract "chunk number i needs exactly want[i] input bytes, then reports the end of the
 * chunk (or a data error)"; want[] is arbitrary.  What it is told (state resets with which
 * lc/lp/pb, uncompressed sizes) is logged and compared with the parser's log.
 */
#include "vcommon.h"
#ifdef VCBMC
/* constant-size copies (the 288-byte wrap copy) use the built-in model, symbolic-size ones the loop model */
#undef memcpy
#define memcpy(d, s, n) (__builtin_constant_p(n) ? __builtin_memcpy((d), (s), (n)) : vmemcpy((d), (s), (n)))
#endif
#include "lz_decoder.c"
#include "lzma2_decoder.c"

#ifndef NIN
#define NIN 10
#endif
#ifndef CALLS
#define CALLS 2
#endif
#ifndef DICT_BYTES
#define DICT_BYTES 16
#endif
#define NOUT (NIN + 2)
#define DSZ (DICT_BYTES + 2 * LZ_DICT_REPEAT_MAX)
#define MAXCH (NIN / 6 + 2)
#define MAXIT (NIN / 4 + 3)
#define MAXLOG (2 * MAXCH + MAXIT + 2)

struct log { unsigned n; uint8_t kind[MAXLOG]; uint32_t val[MAXLOG]; };
static void logev(struct log *l, uint8_t kind, uint32_t val)
{
	if (l->n < MAXLOG) { l->kind[l->n] = kind; l->val[l->n] = val; }
	++l->n;
}
enum { EV_STATE_RESET = 1, EV_USIZE = 2 };

/* ---- LZMA1 payload decoder stub ---- */
struct res;
static void real_event(uint8_t kind, uint32_t val);
static size_t g_want[MAXCH];
static bool g_bad[MAXCH];
static unsigned g_chunk;
static size_t g_left;

static void stub_reset(void *c, const void *options)
{
	(void)c;
	const lzma_options_lzma *o = options;
	real_event(EV_STATE_RESET, o->lc | (o->lp << 4) | (o->pb << 8));
}
static void stub_set_uncompressed(void *c, lzma_vli size, bool allow_eopm)
{
	(void)c;
	CHECK(!allow_eopm, "LZMA2 chunks never allow an end-of-payload marker");
	real_event(EV_USIZE, (uint32_t)size);
	CHECK(g_chunk < MAXCH, "harness bound: number of LZMA chunks");
	g_left = g_want[g_chunk];
}
static lzma_ret stub_code(void *c, lzma_dict *restrict dict, const uint8_t *restrict in,
		size_t *restrict in_pos, size_t in_size)
{
	(void)c; (void)dict; (void)in;
	size_t avail = in_size - *in_pos;
	size_t take = avail < g_left ? avail : g_left;
	*in_pos += take;
	g_left -= take;
	if (g_left == 0) {
		bool bad = g_bad[g_chunk];
		++g_chunk;
		return bad ? LZMA_DATA_ERROR : LZMA_STREAM_END;
	}
	return LZMA_OK;
}

#ifdef STUB_BUFCPY
/* model of lzma_bufcpy (common.c; the real one is exercised in C15's streaming obligations):
 * same position arithmetic; instead of moving bytes into the 600-byte dictionary it records,
 * for ONE arbitrary output offset g_q chosen by the harness, which input index that output
 * byte was copied from (g_q is universally quantified, so this is a byte-for-byte comparison) */
static size_t g_q, g_qsrc, g_outn;
size_t vstub_bufcpy(const uint8_t *restrict in, size_t *restrict in_pos, size_t in_size,
		uint8_t *restrict out, size_t *restrict out_pos, size_t out_size)
{
	(void)out; (void)in;
	CHECK(*in_pos <= in_size && *out_pos <= out_size, "bufcpy called with positions inside the buffers");
	const size_t ia = in_size - *in_pos, oa = out_size - *out_pos;
	const size_t k = ia < oa ? ia : oa;
	if (g_q >= g_outn && g_q - g_outn < k)
		g_qsrc = *in_pos + (g_q - g_outn);
	g_outn += k;
	*in_pos += k; *out_pos += k;
	return k;
}
#endif

/* ---- independent one-pass parser of the chunk grammar ---- */
struct res {
	lzma_ret status;        /* STREAM_END, DATA_ERROR, or OK = input ends inside the stream */
	size_t pos;             /* input consumed */
	bool overrun;           /* DATA_ERROR because a chunk's LZMA data runs past its compressed-size field */
	size_t outn;
	size_t q, qsrc;         /* input index that output byte number q is a copy of */
	struct log log;
	unsigned dict_resets;
	size_t full;            /* bytes in the dictionary since the last dictionary reset */
};
/* Written without goto/return/break so that CBMC's path guards stay small: every step is
 * guarded by !done. */
#define SPEC_ERR()   do { done = true; r->status = LZMA_DATA_ERROR; r->pos = p; } while (0)
#define SPEC_BYTE(v) do { if (!done) { if (p >= n) { done = true; r->status = LZMA_OK; r->pos = n; } \
                                        else (v) = in[p++]; } } while (0)
static void spec_run(const uint8_t *in, size_t n, bool need_dict, struct res *r)
{
	size_t p = 0;
	bool need_props = true, done = false;
	unsigned ch = 0;
	uint32_t props = 0;
	r->outn = 0; r->log.n = 0; r->overrun = false; r->dict_resets = 0;
	r->full = need_dict ? 0 : 2;
	r->status = LZMA_PROG_ERROR; r->pos = 0;
	for (unsigned it = 0; it < MAXIT; ++it) {
		uint8_t c = 0, b1 = 0, b2 = 0, b3 = 0, b4 = 0, pbyte = 0;
		SPEC_BYTE(c);
		if (!done && c == 0) { done = true; r->status = LZMA_STREAM_END; r->pos = p; }
		const bool dict_reset = c >= 0xE0 || c == 1;
		if (!done) {
			if (dict_reset) need_props = true;
			else if (need_dict) SPEC_ERR();
		}
		if (!done && c >= 3 && c < 0x80) SPEC_ERR();
		if (!done && c >= 0x80 && c < 0xC0 && need_props) SPEC_ERR();
		if (!done) {
			if (dict_reset) { ++r->dict_resets; r->full = 0; }
			need_dict = false;
		}
		if (c >= 0x80) {
			if (!done && c >= 0xA0 && c < 0xC0) logev(&r->log, EV_STATE_RESET, props);
			SPEC_BYTE(b1);
			SPEC_BYTE(b2);
			const uint32_t usize = (((uint32_t)(c & 0x1F) << 16) | ((uint32_t)b1 << 8) | b2) + 1;
			if (!done) logev(&r->log, EV_USIZE, usize);
			SPEC_BYTE(b3);
			SPEC_BYTE(b4);
			const uint32_t csize = (((uint32_t)b3 << 8) | b4) + 1;
			if (c >= 0xC0) {
				SPEC_BYTE(pbyte);
				const uint32_t pb = pbyte / 45, lp = (pbyte % 45) / 9, lc = pbyte % 9;
				if (!done && (pbyte > 224 || lc + lp > 4)) SPEC_ERR();
				if (!done) {
					props = lc | (lp << 4) | (pb << 8);
					need_props = false;
					logev(&r->log, EV_STATE_RESET, props);
				}
			}
			if (!done) {
				const size_t w = g_want[ch];
				const bool bad = g_bad[ch];
				++ch;
				const size_t avail = n - p;
				if (w > csize) {
					if (avail > csize) {
						r->overrun = true;
						p += avail < w ? avail : w;   /* what a one-shot call consumes */
						SPEC_ERR();
					} else {
						done = true; r->status = LZMA_OK; r->pos = n;
					}
				} else if (avail < w) {
					done = true; r->status = LZMA_OK; r->pos = n;
				} else {
					p += w;
					if (bad || w < csize) SPEC_ERR();
				}
			}
		} else {
			SPEC_BYTE(b1);
			SPEC_BYTE(b2);
			const size_t size = (((size_t)b1 << 8) | b2) + 1;
			if (!done) {
				const size_t k = size < n - p ? size : n - p;
				if (r->q >= r->outn && r->q - r->outn < k)
					r->qsrc = p + (r->q - r->outn);
				r->outn += k; r->full += k; p += k;
				if (k < size) { done = true; r->status = LZMA_OK; r->pos = n; }
			}
		}
	}
	CHECK(done, "harness bound: parser iteration bound is sufficient");
}

/* what the real decoder tells the LZMA decoder is compared on line with the parser's log */
static struct res sp;
static unsigned g_n;
static bool g_same = true;
static void real_event(uint8_t kind, uint32_t val)
{
	if (!(g_n < sp.log.n && g_n < MAXLOG && sp.log.kind[g_n] == kind && sp.log.val[g_n] == val))
		g_same = false;
	++g_n;
}

void harness_lzma2_chunks(void)
{
	size_t n = nd_size();
	ASSUME(n <= NIN);
	uint8_t in[NIN];
	nd_bytes(in, NIN);
	for (unsigned i = 0; i < MAXCH; ++i) {
		g_want[i] = nd_size();
		ASSUME(g_want[i] >= 1 && g_want[i] <= NIN);
		g_bad[i] = nd_bool();
	}
	const bool preset_dict = nd_bool();      /* with a preset dictionary the first chunk need not reset */

	/* the state lzma_lz_decoder_init + lzma2_decoder_init establish (no next filter) */
	static lzma_coder lzc;
	static lzma_lzma2_coder c2;
	static uint8_t dictbuf[DSZ + LZ_DICT_EXTRA];
	lzc.dict.buf = dictbuf; lzc.dict.size = DSZ;
	lz_decoder_reset(&lzc);
	if (preset_dict) { lzc.dict.pos += 2; lzc.dict.full = 2; }
	lzc.lz.coder = &c2; lzc.lz.code = &lzma2_decode; lzc.lz.end = NULL;
	lzc.next.code = NULL; lzc.next_finished = false; lzc.this_finished = false;
	lzc.temp.pos = 0; lzc.temp.size = 0;
	c2.sequence = SEQ_CONTROL;
	c2.need_properties = true;
	c2.need_dictionary_reset = !preset_dict;
	c2.lzma.coder = NULL; c2.lzma.code = &stub_code; c2.lzma.reset = &stub_reset;
	c2.lzma.set_uncompressed = &stub_set_uncompressed; c2.lzma.end = NULL;

	sp.q = nd_size(); ASSUME(sp.q < NOUT);
	sp.qsrc = 0;
#ifdef STUB_BUFCPY
	g_q = sp.q;
#endif
	spec_run(in, n, !preset_dict, &sp);

	uint8_t out[NOUT];
	size_t in_pos = 0, out_pos = 0;
	lzma_ret ret = LZMA_OK;
	for (unsigned k = 0; k < CALLS + 1; ++k) if (ret == LZMA_OK) {
		size_t in_end = n, out_end = NOUT;
		if (k < CALLS) {
			in_end = nd_size(); out_end = nd_size();
			ASSUME(in_end >= in_pos && in_end <= n);
			ASSUME(out_end >= out_pos && out_end <= NOUT);
		}
		const size_t ip0 = in_pos, op0 = out_pos;
		ret = decode_buffer(&lzc, in, &in_pos, in_end, out, &out_pos, out_end);
		CHECK(in_pos >= ip0 && in_pos <= in_end, "input position stays inside the slice");
		CHECK(out_pos >= op0 && out_pos <= out_end, "output position stays inside the slice");
		CHECK(ret == LZMA_OK || ret == LZMA_STREAM_END || ret == LZMA_DATA_ERROR, "only OK, STREAM_END or DATA_ERROR");
	}
	/* the last call had all input and ample output space */
	CHECK(ret == sp.status, "accepted / rejected / incomplete exactly as the chunk grammar says, for every slicing");
	if (sp.overrun) {
		/* Rejected because the LZMA data runs past the Compressed Size field: the status is
		 * checked above; how much input was consumed by then is the subject of C06's obligation
		 * lzma2_lzma_chunk_slicing (a recorded finding, see known-findings.txt), not repeated here. */
		WITNESS("LZMA data longer than the compressed-size field");
	} else {
		CHECK(in_pos == sp.pos, "input consumed equals the parser's, for every slicing");
	}
	CHECK(out_pos == sp.outn, "output length equals the parser's");
#ifdef STUB_BUFCPY
	if (sp.q < sp.outn)
		CHECK(g_qsrc == sp.qsrc, "every output byte is a copy of the input byte the grammar says (uncompressed-chunk payloads in order)");
#else
	if (sp.q < sp.outn)
		CHECK(out[sp.q] == in[sp.qsrc], "every output byte is a copy of the input byte the grammar says (uncompressed-chunk payloads in order)");
#endif
	CHECK(!lzc.dict.has_wrapped && lzc.dict.full == sp.full, "dictionary holds exactly the bytes since the last dictionary reset (resets happen where the control bytes say)");
	CHECK(sp.log.n <= MAXLOG, "harness bound: log size");
	CHECK(g_same, "the LZMA decoder is told the same state resets (with the same lc/lp/pb) and chunk uncompressed sizes, in the same order, as the parser derives");
	CHECK(g_n == sp.log.n, "no reset or chunk start is missing");
	if (ret == LZMA_STREAM_END && sp.log.n > 1) WITNESS("stream with an LZMA chunk accepted");
	if (ret == LZMA_STREAM_END && sp.outn > 0) WITNESS("stream with an uncompressed chunk accepted");
	if (ret == LZMA_DATA_ERROR && !sp.overrun) WITNESS("rejected");
}
