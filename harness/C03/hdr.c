/*
 * C03 O-a/O-b/O-c: container header decoders vs the specification-derived acceptors of
 * spec/xzspec.h.  Real units linked: stream_flags_decoder.c, stream_flags_common.c,
 * block_header_decoder.c, filter_flags_decoder.c, filter_decoder.c, vli_decoder.c,
 * block_util.c, check.c, common.c, lzma2_decoder.c / lzma_decoder.c / simple_decoder.c /
 * delta_decoder.c (their props decoders).
 */
#include "vcommon.h"
#include "common.h"

#ifdef BH_STUB_CRC
/* Block Header obligations: the CRC32 of the header bytes is ABSTRACTED: one arbitrary
 * 32-bit value `ghost_crc` stands for "CRC32 of the first HS-4 bytes"; the real decoder
 * (lzma_crc32 renamed to vstub_crc32 on the real units) and the spec parser both see it.
 * This over-approximates the real CRC (whose value is one of the 2^32 possibilities), so a
 * verdict for all ghost values covers the real function; that the real lzma_crc32 computes
 * the IEEE CRC32 is C14's subject.  The stub checks it is asked for exactly that region. */
static uint32_t ghost_crc;
static const uint8_t *ghost_crc_buf;
static size_t ghost_crc_len;
uint32_t vstub_crc32(const uint8_t *buf, size_t size, uint32_t crc)
{
	CHECK(buf == ghost_crc_buf && size == ghost_crc_len && crc == 0,
		"CRC32 is computed over exactly the header minus its CRC field");
	return ghost_crc;
}
#define SPEC_CRC32(p, n) (ghost_crc)
#endif
#include "../../spec/xzspec.h"

void harness_stream_header(void)
{
	uint8_t h[12];
	nd_bytes(h, 12);
	lzma_stream_flags sf;
	lzma_ret r = lzma_stream_header_decode(&sf, h);
	unsigned check = 99;
	int s = spec_stream_header(h, &check);
	CHECK((r == LZMA_OK) == (s == 0), "Stream Header accepted exactly when the spec says valid");
	CHECK((r == LZMA_FORMAT_ERROR) == (s == 1), "FORMAT_ERROR exactly for wrong magic");
	CHECK((r == LZMA_DATA_ERROR) == (s == 2), "DATA_ERROR exactly for a CRC32 mismatch");
	CHECK((r == LZMA_OPTIONS_ERROR) == (s == 3), "OPTIONS_ERROR exactly for reserved Stream Flags");
	if (r == LZMA_OK) {
		CHECK(sf.version == 0 && (unsigned)sf.check == check
			&& sf.backward_size == LZMA_VLI_UNKNOWN, "decoded Stream Flags equal the spec's");
		WITNESS("a valid Stream Header exists");
	}
	if (s == 3) WITNESS("reserved-flags header with good CRC");
}

void harness_stream_footer(void)
{
	uint8_t f[12];
	nd_bytes(f, 12);
#ifdef BH_STUB_CRC
	ghost_crc = nd_u32(); ghost_crc_buf = f + 4; ghost_crc_len = 6;
#endif
	lzma_stream_flags sf;
	lzma_ret r = lzma_stream_footer_decode(&sf, f);
	unsigned check = 99; uint64_t bs = 0;
	int s = spec_stream_footer(f, &check, &bs);
	CHECK((r == LZMA_OK) == (s == 0), "Stream Footer accepted exactly when the spec says valid");
	CHECK((r == LZMA_FORMAT_ERROR) == (s == 1), "FORMAT_ERROR exactly for wrong magic");
	CHECK((r == LZMA_DATA_ERROR) == (s == 2), "DATA_ERROR exactly for a CRC32 mismatch");
	CHECK((r == LZMA_OPTIONS_ERROR) == (s == 3), "OPTIONS_ERROR exactly for reserved Stream Flags");
	if (r == LZMA_OK) {
		CHECK(sf.version == 0 && (unsigned)sf.check == check, "check id equals the spec's");
		CHECK(sf.backward_size == bs, "Backward Size = (stored + 1) * 4 over the whole 32-bit range");
		if (bs > 0xFFFFFFFFull) WITNESS("Backward Size above 4 GiB");
		WITNESS("a valid Stream Footer exists");
	}
}

/* header/footer consistency as used by the Stream decoder */
void harness_flags_compare(void)
{
	lzma_stream_flags a, b;
	a.version = nd_u32(); b.version = nd_u32();
	a.check = (lzma_check)nd_u32(); b.check = (lzma_check)nd_u32();
	a.backward_size = nd_u64(); b.backward_size = nd_u64();
	lzma_ret r = lzma_stream_flags_compare(&a, &b);
	if (r == LZMA_OK) {
		CHECK(a.version == 0 && b.version == 0, "only version 0");
		CHECK(a.check == b.check && (unsigned)a.check <= 15, "equal, valid check ids");
		CHECK(a.backward_size == LZMA_VLI_UNKNOWN || b.backward_size == LZMA_VLI_UNKNOWN
			|| a.backward_size == b.backward_size, "equal Backward Sizes when both known");
		WITNESS("comparison can succeed");
	}
	if (a.version == 0 && b.version == 0 && (unsigned)a.check <= 15 && a.check == b.check
			&& a.backward_size == LZMA_VLI_UNKNOWN)
		CHECK(r == LZMA_OK, "header (unknown backward size) vs matching footer compares equal");
}

#ifdef HS
/* Block Header of HS bytes: every byte string */
void harness_block_header(void)
{
	uint8_t h[HS];
	nd_bytes(h, HS);
	ghost_crc = nd_u32(); ghost_crc_buf = h; ghost_crc_len = HS - 4;
	ASSUME(h[0] == HS / 4 - 1);
	lzma_filter filters[LZMA_FILTERS_MAX + 1];
	lzma_block blk;
	memset(&blk, 0, sizeof(blk));
	blk.version = nd_u32() & 1;
	blk.header_size = HS;
	blk.check = (lzma_check)(nd_u32() & 15);
	blk.filters = filters;
	lzma_ret r = lzma_block_header_decode(&blk, NULL, h);
	spec_block_header sb;
	bool valid = spec_block_header_parse(h, HS, (unsigned)blk.check, &sb);
	CHECK((r == LZMA_OK) == valid, "Block Header accepted exactly when the spec says valid+supported");
	CHECK(r == LZMA_OK || r == LZMA_DATA_ERROR || r == LZMA_OPTIONS_ERROR, "only OK/DATA_ERROR/OPTIONS_ERROR");
	if (r == LZMA_OK) {
		CHECK(blk.compressed_size == (sb.has_comp ? sb.comp : LZMA_VLI_UNKNOWN), "Compressed Size field");
		CHECK(blk.uncompressed_size == (sb.has_uncomp ? sb.uncomp : LZMA_VLI_UNKNOWN), "Uncompressed Size field");
		for (unsigned i = 0; i < 4; ++i) {
			if (i >= sb.nfilters) {
				CHECK(filters[i].id == LZMA_VLI_UNKNOWN && filters[i].options == NULL, "filter array terminated");
				continue;
			}
			CHECK(filters[i].id == sb.f[i].id, "filter id");
			if (sb.f[i].id == SPEC_ID_LZMA2) {
				const lzma_options_lzma *o = filters[i].options;
				CHECK(o != NULL && o->dict_size == sb.f[i].value, "LZMA2 dictionary size");
				CHECK(o->preset_dict == NULL, "no preset dictionary from a header");
			} else if (sb.f[i].id == SPEC_ID_DELTA) {
				const lzma_options_delta *o = filters[i].options;
				CHECK(o != NULL && o->type == LZMA_DELTA_TYPE_BYTE && o->dist == sb.f[i].value, "delta distance");
			} else {
				const lzma_options_bcj *o = filters[i].options;
				CHECK((o == NULL && sb.f[i].value == 0) || (o != NULL && o->start_offset == sb.f[i].value && sb.f[i].value != 0), "BCJ start offset");
			}
		}
		CHECK(filters[4].id == LZMA_VLI_UNKNOWN, "terminator");
#if HS >= 12
		if (sb.nfilters >= 2) WITNESS("valid header with two or more filters");
		if (sb.has_comp && sb.has_uncomp) WITNESS("valid header with both sizes");
#endif
		WITNESS("a valid Block Header exists");
		lzma_filters_free(filters, NULL);
	} else {
		for (unsigned i = 0; i <= 4; ++i)
			CHECK(filters[i].options == NULL, "no options left allocated on error");
	}
}
#endif

/* O-c: filter chain validation (raw coder init): <= 4 filters, last must be LZMA1/LZMA2
 * (a "last ok" filter), non-last must not be; unknown ids refused */
#include "filter_common.h"
void harness_chain(void)
{
	lzma_filter f[LZMA_FILTERS_MAX + 2];
	static const lzma_vli ids[] = { LZMA_FILTER_LZMA1, LZMA_FILTER_LZMA1EXT, LZMA_FILTER_LZMA2,
		LZMA_FILTER_X86, LZMA_FILTER_POWERPC, LZMA_FILTER_IA64, LZMA_FILTER_ARM,
		LZMA_FILTER_ARMTHUMB, LZMA_FILTER_ARM64, LZMA_FILTER_SPARC, LZMA_FILTER_RISCV,
		LZMA_FILTER_DELTA, 0x7777 /* unknown */ };
	unsigned n = nd_u32() % 6;  /* 0..5 filters */
	unsigned last_ok = 0, nonlast_bad = 0, unknown = 0;
	for (unsigned i = 0; i < LZMA_FILTERS_MAX + 2; ++i) {
		if (i < n) {
			unsigned k = nd_u32() % (sizeof(ids) / sizeof(ids[0]));
			f[i].id = ids[k];
			f[i].options = NULL;
			bool is_lz = k <= 2;
			if (k == 12) unknown = 1;
			if (i + 1 == n) last_ok = is_lz; else if (is_lz) nonlast_bad = 1;
		} else {
			f[i].id = LZMA_VLI_UNKNOWN; f[i].options = NULL;
		}
	}
	size_t count = 99;
	lzma_ret r = lzma_validate_chain(f, &count);
	bool valid = n >= 1 && n <= 4 && last_ok && !nonlast_bad && !unknown;
	CHECK((r == LZMA_OK) == valid, "chain accepted exactly when 1..4 filters, LZMA1/2 last and only last, all known");
	if (r == LZMA_OK) { CHECK(count == n, "count reported"); WITNESS("valid chain"); }
	if (n == 5) WITNESS("five-filter chain case");
}
