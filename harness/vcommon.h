/*
 * vcommon.h -- shared harness API.
 *
 * The same harness source is compiled two ways:
 *   - by goto-cc for CBMC (__CPROVER__ defined): nd_*() are nondeterministic,
 *     ASSUME/CHECK/WITNESS map onto __CPROVER_assume/__CPROVER_assert;
 *   - natively (gcc -DVREPLAY, ASan+UBSan) for replaying a counterexample:
 *     nd_*() pop the values CBMC's trace assigned (in program order) from
 *     vreplay_values[], CHECK aborts with exit code 42.
 *
 * Every nondeterministic choice of a harness or a stub goes through nd_*(), which
 * records the value in the global `nd_last`; bin/check extracts the sequence of
 * `nd_last=` assignments from the CBMC trace to build the replay input.
 */
#ifndef VCOMMON_H
#define VCOMMON_H

#include <stdint.h>
#include <stddef.h>
#include <stdbool.h>
#include <string.h>
#include <stdlib.h>

#ifdef VCBMC

uint64_t nd_last;
uint64_t nondet_uint64_t(void);

static inline uint64_t nd_u64(void) { nd_last = nondet_uint64_t(); return nd_last; }
static inline uint32_t nd_u32(void) { return (uint32_t)nd_u64(); }
static inline uint16_t nd_u16(void) { return (uint16_t)nd_u64(); }
static inline uint8_t  nd_u8(void)  { return (uint8_t)nd_u64(); }
static inline size_t   nd_size(void){ return (size_t)nd_u64(); }
static inline int      nd_int(void) { return (int)(uint32_t)nd_u64(); }
static inline bool     nd_bool(void){ return (nd_u64() & 1) != 0; }

#define ASSUME(c) __CPROVER_assume(c)
#define CHECK(c, msg) __CPROVER_assert((c), "PROP: " msg)
#define WITNESS(msg) __CPROVER_assert(0, "WITNESS: " msg)
#define VMALLOC_NONNULL(p) __CPROVER_assume((p) != NULL)

#else /* native replay */

#include <stdio.h>
extern const uint64_t vreplay_values[];
extern const unsigned vreplay_count;
static unsigned vreplay_pos;
static uint64_t nd_last;

static inline uint64_t nd_u64(void)
{
	if (vreplay_pos >= vreplay_count) {
		/* The trace had fewer choices than this execution needs:
		 * the native run diverged from the counterexample. */
		fprintf(stderr, "REPLAY-DIVERGED: out of recorded values\n");
		exit(3);
	}
	nd_last = vreplay_values[vreplay_pos++];
	return nd_last;
}
static inline uint32_t nd_u32(void) { return (uint32_t)nd_u64(); }
static inline uint16_t nd_u16(void) { return (uint16_t)nd_u64(); }
static inline uint8_t  nd_u8(void)  { return (uint8_t)nd_u64(); }
static inline size_t   nd_size(void){ return (size_t)nd_u64(); }
static inline int      nd_int(void) { return (int)(uint32_t)nd_u64(); }
static inline bool     nd_bool(void){ return (nd_u64() & 1) != 0; }

#define ASSUME(c) do { if (!(c)) { fprintf(stderr, \
	"REPLAY-DIVERGED: assumption failed: %s (%s:%d)\n", #c, __FILE__, __LINE__); \
	exit(3); } } while (0)
#define CHECK(c, msg) do { if (!(c)) { fprintf(stderr, \
	"REPLAY-VIOLATION: %s [%s] (%s:%d)\n", msg, #c, __FILE__, __LINE__); \
	exit(42); } } while (0)
#define WITNESS(msg) do { } while (0)
#define VMALLOC_NONNULL(p) do { if ((p) == NULL) exit(3); } while (0)

#endif

#if defined(VCBMC) && defined(VLOOP_MEM)
/* Byte-loop models of memcpy/memmove/memset for obligations where sizes and offsets are
 * symbolic but tiny: CBMC's built-in array_replace encoding of these costs millions of
 * clauses there, a bounded loop a few thousand.  The loops are subject to the unwinding
 * assertions like any other loop.  Semantics are the C library's (memmove handles overlap). */
#ifdef VLOOP_MEM_ONECHECK
/* variant: validity of both ranges is asserted once per call (as the C library requires,
 * including non-null pointers for n == 0), the byte loop itself runs without per-byte
 * pointer checks -- same property, a fraction of the formula */
static inline void *vmemcpy(void *d, const void *s, size_t n)
{
	__CPROVER_assert(d != NULL && s != NULL, "memcpy: pointers are non-null");
	__CPROVER_assert(n == 0 || __CPROVER_w_ok(d, n), "memcpy: destination range writable");
	__CPROVER_assert(n == 0 || __CPROVER_r_ok(s, n), "memcpy: source range readable");
	unsigned char *dd = d; const unsigned char *ss = s;
#pragma CPROVER check push
#pragma CPROVER check disable "pointer"
#pragma CPROVER check disable "bounds"
#pragma CPROVER check disable "pointer-overflow"
	for (size_t i = 0; i < n; ++i)
		dd[i] = ss[i];
#pragma CPROVER check pop
	return d;
}
#else
static inline void *vmemcpy(void *d, const void *s, size_t n)
{
	unsigned char *dd = d; const unsigned char *ss = s;
	for (size_t i = 0; i < n; ++i)
		dd[i] = ss[i];
	return d;
}
#endif
static inline void *vmemmove(void *d, const void *s, size_t n)
{
	unsigned char *dd = d; const unsigned char *ss = s;
	if (dd <= ss || dd >= ss + n) {
		for (size_t i = 0; i < n; ++i)
			dd[i] = ss[i];
	} else {
		for (size_t i = n; i > 0; --i)
			dd[i - 1] = ss[i - 1];
	}
	return d;
}
static inline void *vmemset(void *d, int c, size_t n)
{
	unsigned char *dd = d;
	for (size_t i = 0; i < n; ++i)
		dd[i] = (unsigned char)c;
	return d;
}
#define memcpy vmemcpy
#define memmove vmemmove
#define memset vmemset
#endif

/* Fill a small buffer with nondeterministic bytes (one choice per byte so that
 * the replay sees them). */
static inline void nd_bytes(uint8_t *p, size_t n)
{
	for (size_t i = 0; i < n; ++i)
		p[i] = nd_u8();
}

#endif
