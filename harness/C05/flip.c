/*
 * C05 O-a: every single-bit flip of an accepted CRC-protected container field is rejected
 * (real lzma_crc32 here: this is a genuine CRC property, feasible because the fields are small).
 */
#include "vcommon.h"
#include "common.h"

static void flip(uint8_t *p, size_t nbytes, size_t bit) { (void)nbytes; p[bit / 8] ^= (uint8_t)(1u << (bit % 8)); }

void harness_flip_stream_header(void)
{
	uint8_t h[12]; nd_bytes(h, 12);
	lzma_stream_flags a, b;
	if (lzma_stream_header_decode(&a, h) != LZMA_OK) return;
	size_t bit = nd_size(); ASSUME(bit < 96);
	flip(h, 12, bit);
	CHECK(lzma_stream_header_decode(&b, h) != LZMA_OK, "any single-bit flip of a valid Stream Header is rejected");
	WITNESS("a valid header exists");
}
void harness_flip_stream_footer(void)
{
	uint8_t f[12]; nd_bytes(f, 12);
	lzma_stream_flags a, b;
	if (lzma_stream_footer_decode(&a, f) != LZMA_OK) return;
	size_t bit = nd_size(); ASSUME(bit < 96);
	flip(f, 12, bit);
	CHECK(lzma_stream_footer_decode(&b, f) != LZMA_OK, "any single-bit flip of a valid Stream Footer is rejected");
	WITNESS("a valid footer exists");
}
#ifdef HS
void harness_flip_block_header(void)
{
	uint8_t h[HS]; nd_bytes(h, HS);
	ASSUME(h[0] == HS / 4 - 1);
	lzma_filter f1[LZMA_FILTERS_MAX + 1], f2[LZMA_FILTERS_MAX + 1];
	lzma_block b1, b2;
	memset(&b1, 0, sizeof(b1));
	b1.version = 1; b1.header_size = HS; b1.check = (lzma_check)(nd_u32() & 15); b1.filters = f1;
	b2 = b1; b2.filters = f2;
	if (lzma_block_header_decode(&b1, NULL, h) != LZMA_OK) return;
	lzma_filters_free(f1, NULL);
	size_t bit = nd_size(); ASSUME(bit >= 8 && bit < HS * 8);   /* the size byte itself is consumed by the Stream decoder */
	flip(h, HS, bit);
	lzma_ret r = lzma_block_header_decode(&b2, NULL, h);
	CHECK(r != LZMA_OK, "any single-bit flip of a valid Block Header is rejected");
	WITNESS("a valid Block Header exists");
}
#endif
