/*
 * C05 / C03 / C04 / C06: the Index verification used by the stream decoder (index_hash.c:
 * lzma_index_hash_init / _append / _decode) -- after K Blocks with arbitrary Unpadded and
 * Uncompressed Sizes were appended, EVERY byte string offered as the Index field, in every
 * slicing, is accepted exactly when it is the one encoding the .xz specification defines for
 * those Blocks (Index Indicator 0x00, Number of Records, minimal VLIs of each Record, zero Index
 * Padding to a multiple of four, CRC32 of everything before), and a proper prefix of that
 * encoding is reported as incomplete, never as an error or as complete.
 *
 * Abstractions: lzma_crc32 is a chaining function (additive; the real CRC32 is C14's subject);
 * the hash that summarises the Record list (lzma_check_*, SHA-256 in the real build) is replaced
 * by an exact recorder: the 32-byte "digest" is the two (unpadded, uncompressed) pairs
 * themselves, so equality of digests is equality of lists (K <= 2).
 */
#include "vcommon.h"

/* lzma_crc32 abstracted to a coverage tracker: the "CRC" of a byte sequence fed in contiguous
 * pieces starting at the first Index byte is the number of bytes fed; any other feeding pattern
 * (gap, overlap, wrong start) poisons it.  What the real code must get right -- which bytes go
 * into the CRC32 -- is exactly what this observes; the CRC32 function itself is C14's subject. */
static const uint8_t *g_crc_base;
static size_t g_crc_fed;
static bool g_crc_bad;
uint32_t vstub_crc32(const uint8_t *buf, size_t size, uint32_t crc)
{
	if (buf != g_crc_base + g_crc_fed || crc != (uint32_t)g_crc_fed) g_crc_bad = true;
	g_crc_fed += size;
	return g_crc_bad ? 0xDEADBEEFu : (uint32_t)g_crc_fed;
}
/* the only memcmp in index_hash.c compares two 32-byte digests for equality */
static int vmemcmp32(const void *a, const void *b, size_t n)
{
	const uint64_t *x = a, *y = b;
	__CPROVER_assert(n == 32, "digest comparison is 32 bytes");
	return !(x[0] == y[0] && x[1] == y[1] && x[2] == y[2] && x[3] == y[3]);
}
#ifdef VCBMC
#define memcmp vmemcmp32
#endif

#include "index_hash.c"

#ifndef KMAX
#define KMAX 2
#endif
#ifndef VBITS
#define VBITS 14            /* sizes below 2^VBITS: VLIs of at most VBITS/7 bytes */
#endif
#ifndef CALLS
#define CALLS 2
#endif
#define VB ((VBITS + 6) / 7)
#define LMAX (1 + 1 + KMAX * 2 * VB + 3 + 4)
#define NIN (LMAX + 1)

/* exact recorder in place of the hash; state.crc32 counts the pairs recorded */
void vstub_check_init2(lzma_check_state *check, lzma_check type)
{
	(void)type;
	check->state.crc32 = 0;
	for (unsigned i = 0; i < 4; ++i) check->buffer.u64[i] = 0;
}
void vstub_check_update2(lzma_check_state *check, lzma_check type, const uint8_t *buf, size_t size)
{
	(void)type;
	CHECK(size == 16, "one (unpadded, uncompressed) pair per update");
	const lzma_vli *v = (const lzma_vli *)buf;
	const uint32_t k = check->state.crc32;
	CHECK(k < KMAX, "harness bound: at most KMAX records are hashed");
	if (k == 0) { check->buffer.u64[0] = v[0]; check->buffer.u64[1] = v[1]; }
	else if (k == 1) { check->buffer.u64[2] = v[0]; check->buffer.u64[3] = v[1]; }
	check->state.crc32 = k + 1;
}
void vstub_check_finish2(lzma_check_state *check, lzma_check type) { (void)check; (void)type; }

static size_t put_vli(uint8_t *p, uint64_t v)
{
	size_t i = 0;
	for (unsigned k = 0; k < VB + 1; ++k) {
		if (v >= 0x80) { p[i++] = (uint8_t)(v | 0x80); v >>= 7; }
	}
	p[i++] = (uint8_t)v;
	return i;
}

void harness_index_hash(void)
{
	unsigned K = nd_u32(); ASSUME(K <= KMAX);
	uint64_t unp[KMAX], unc[KMAX];
	static lzma_index_hash ih;
	lzma_index_hash *h = lzma_index_hash_init(&ih, NULL);
	CHECK(h == &ih, "init reuses the given object");
	for (unsigned i = 0; i < KMAX; ++i) {
		unp[i] = nd_u64(); unc[i] = nd_u64();
		ASSUME(unp[i] >= 5 && unp[i] < (1ull << VBITS) && unc[i] < (1ull << VBITS));
		if (i < K) {
			lzma_ret a = lzma_index_hash_append(h, unp[i], unc[i]);
			CHECK(a == LZMA_OK, "append of valid sizes succeeds");
		}
	}

	/* ---- the one valid Index field for these Blocks ---- */
	uint8_t exp[LMAX];
	size_t L = 0;
	exp[L++] = 0x00;
	exp[L++] = (uint8_t)K;
	for (unsigned i = 0; i < KMAX; ++i)
		if (i < K) {
			L += put_vli(exp + L, unp[i]);
			L += put_vli(exp + L, unc[i]);
		}
	for (unsigned i = 0; i < 3; ++i)
		if (L & 3) exp[L++] = 0x00;
	const uint32_t crc = (uint32_t)L;          /* coverage-tracker "CRC" of the L bytes before the field */
	exp[L++] = (uint8_t)crc; exp[L++] = (uint8_t)(crc >> 8);
	exp[L++] = (uint8_t)(crc >> 16); exp[L++] = (uint8_t)(crc >> 24);
	CHECK(L <= LMAX && (L & 3) == 0, "harness bound: expected Index fits");
	CHECK(lzma_index_hash_size(h) == L, "lzma_index_hash_size() is the size of that encoding");

	uint8_t in[NIN];
	nd_bytes(in, NIN);
	g_crc_base = in;
	size_t n = nd_size(); ASSUME(n >= 1 && n <= NIN);
	bool same = true;          /* in[] agrees with exp[] on the first min(n, L) bytes */
	for (size_t i = 0; i < LMAX; ++i)
		if (i < L && i < n && in[i] != exp[i]) same = false;

	size_t in_pos = 0;
	lzma_ret ret = LZMA_OK;
	for (unsigned k = 0; k < CALLS + 1; ++k) if (ret == LZMA_OK && in_pos < n) {
		size_t in_end = n;
		if (k < CALLS) { in_end = nd_size(); ASSUME(in_end > in_pos && in_end <= n); }
		const size_t ip0 = in_pos;
		ret = lzma_index_hash_decode(h, in, &in_pos, in_end);
		CHECK(in_pos >= ip0 && in_pos <= in_end, "input position stays inside the slice");
		CHECK(ret == LZMA_OK || ret == LZMA_STREAM_END || ret == LZMA_DATA_ERROR, "only OK, STREAM_END or DATA_ERROR for non-empty input");
	}
	if (ret == LZMA_STREAM_END) {
		CHECK(same && n >= L, "an Index that differs in any byte from the encoding of the decoded Blocks is never accepted");
		CHECK(in_pos == L, "the Index ends exactly after its CRC32");
		WITNESS("matching Index accepted");
#if KMAX >= 2
		if (K == 2) WITNESS("two records accepted");
#endif
	}
	if (same) {
		CHECK(ret == (n >= L ? LZMA_STREAM_END : LZMA_OK), "the right Index (or a prefix of it) is never rejected; complete exactly after the CRC32");
		CHECK(in_pos == (n >= L ? L : n), "input consumed is fixed by the data, not by the slicing");
		if (n < L) WITNESS("prefix reported as incomplete");
	} else {
		CHECK(ret != LZMA_STREAM_END, "damaged Index never accepted");
		if (ret == LZMA_DATA_ERROR) WITNESS("damaged Index rejected");
	}
}
