/*
 * C05 / C03 / C04 / C06: the Block decoder (block_decoder.c lzma_block_decoder_init + block_decode)
 * on every Block body -- payload, Block Padding, Check field -- delivered in an arbitrary
 * slicing, for every combination of sizes declared in the Block Header (known / unknown,
 * right / wrong) and every Check type.
 *
 * The filter chain behind coder->next (lzma_raw_decoder_init) is a stub with the liblzma coder
 * contract: the payload really is P compressed bytes that decode to U bytes; a call consumes
 * and produces arbitrary amounts inside the limits it is given, returns LZMA_STREAM_END exactly
 * when both are complete, and otherwise returns only when it lacks input it still needs or
 * room for output it still has.  The integrity check functions are abstracted: the value of the
 * Check over the U produced bytes is an arbitrary byte string EXP (what lzma_check_finish
 * leaves in coder->check.buffer); the harness verifies that exactly the produced bytes were fed
 * to lzma_check_update.
 *
 * Specification of a valid Block body: sizes in the header, where present, equal P and U;
 * (4 - P%4)%4 zero bytes of padding; then the Check field equal to EXP (compared unless the
 * Check type is None, unsupported by this build, or the caller asked to ignore it).
 */
#include "vcommon.h"
#include "block_decoder.c"

#ifndef PMAX
#define PMAX 5
#endif
#ifndef CHKMAX
#define CHKMAX 8           /* largest Check field covered: ids with size <= CHKMAX */
#endif
#ifndef CALLS
#define CALLS 3
#endif
#define NIN (PMAX + 3 + CHKMAX + 1)
#define NOUT (PMAX + 2)

static size_t g_P, g_U, g_ci, g_uo;       /* true sizes, progress */
static size_t g_fed;                       /* bytes given to lzma_check_update */
static bool g_fed_ok = true;
static uint8_t g_exp[CHKMAX];
static bool g_finish_called;
static uint8_t *g_outbase;

lzma_ret vstub_raw_decoder_init(lzma_next_coder *next, const lzma_allocator *a, const lzma_filter *f)
{ (void)a; (void)f; (void)next; return LZMA_OK; }

static lzma_ret raw_code(void *c, const lzma_allocator *a, const uint8_t *restrict in,
		size_t *restrict in_pos, size_t in_size, uint8_t *restrict out,
		size_t *restrict out_pos, size_t out_size, lzma_action action)
{
	(void)c; (void)a; (void)in; (void)action;
	CHECK(*in_pos <= in_size && *out_pos <= out_size, "filter chain called with positions inside its limits");
	size_t di = nd_size(), dout = nd_size();
	ASSUME(di <= in_size - *in_pos && di <= g_P - g_ci);
	ASSUME(dout <= out_size - *out_pos && dout <= g_U - g_uo);
	for (size_t i = 0; i < NOUT; ++i)
		if (i < dout)
			out[*out_pos + i] = nd_u8();
	*in_pos += di; *out_pos += dout; g_ci += di; g_uo += dout;
	if (g_ci == g_P && g_uo == g_U)
		return LZMA_STREAM_END;
	/* not finished: it stopped because it lacks input it needs or room for output it has */
	ASSUME((g_ci < g_P && *in_pos == in_size) || (g_uo < g_U && *out_pos == out_size));
	return LZMA_OK;
}

void vstub_check_init(lzma_check_state *check, lzma_check type) { (void)check; (void)type; }
void vstub_check_update(lzma_check_state *check, lzma_check type, const uint8_t *buf, size_t size)
{
	(void)check; (void)type;
	if (buf != g_outbase + g_fed) g_fed_ok = false;
	g_fed += size;
}
void vstub_check_finish(lzma_check_state *check, lzma_check type)
{
	(void)type;
	g_finish_called = true;
	for (unsigned i = 0; i < CHKMAX; ++i)
		check->buffer.u8[i] = g_exp[i];
}

void harness_block_body(void)
{
	uint8_t in[NIN], out[NOUT];
	nd_bytes(in, NIN);
	size_t n = nd_size(); ASSUME(n <= NIN);
	g_P = nd_size(); g_U = nd_size();
	ASSUME(g_P >= 1 && g_P <= PMAX && g_U <= PMAX);
	for (unsigned i = 0; i < CHKMAX; ++i) g_exp[i] = nd_u8();
	g_outbase = out;

	static lzma_block b;
	static lzma_filter filters[LZMA_FILTERS_MAX + 1];
	b.version = nd_u32(); ASSUME(b.version <= 1);
	b.header_size = nd_u32(); ASSUME(b.header_size >= 8 && b.header_size <= 1024 && (b.header_size & 3) == 0);
	b.check = nd_u32(); ASSUME(b.check <= LZMA_CHECK_ID_MAX);
	const size_t csz = lzma_check_size(b.check);
	ASSUME(csz <= CHKMAX);
	b.compressed_size = nd_bool() ? LZMA_VLI_UNKNOWN : nd_u64();
	b.uncompressed_size = nd_bool() ? LZMA_VLI_UNKNOWN : nd_u64();
	ASSUME(b.compressed_size == LZMA_VLI_UNKNOWN || (b.compressed_size >= 1 && b.compressed_size <= PMAX + 2));
	ASSUME(b.uncompressed_size == LZMA_VLI_UNKNOWN || b.uncompressed_size <= PMAX + 2);
	b.ignore_check = nd_bool();
	b.filters = filters;
	const lzma_vli hdr_c = b.compressed_size, hdr_u = b.uncompressed_size;

	lzma_next_coder next = LZMA_NEXT_CODER_INIT;
	lzma_ret r = lzma_block_decoder_init(&next, NULL, &b);
	CHECK(r == LZMA_OK, "init accepts every valid header description");
	lzma_block_coder *coder = next.coder;
	coder->next.code = &raw_code;

	/* ---- the specification ---- */
	const size_t pad = (4 - (g_P & 3)) & 3;
	const size_t total = g_P + pad + csz;
	bool pad_bad = false, chk_bad = false;      /* pad_bad: a non-zero padding byte among the n given bytes */
	size_t first_bad = 0;
	for (size_t i = 0; i < 3; ++i)
		if (i < pad && g_P + i < n && in[g_P + i] != 0 && !pad_bad) { pad_bad = true; first_bad = g_P + i; }
	const bool ignore = b.version >= 1 && b.ignore_check;
	const bool compared = csz > 0 && !ignore && lzma_check_is_supported(b.check);
	for (size_t i = 0; i < CHKMAX; ++i)
		if (i < csz && g_P + pad + i < NIN && in[g_P + pad + i] != g_exp[i]) chk_bad = true;
	const bool sizes_ok = (hdr_c == LZMA_VLI_UNKNOWN || hdr_c == g_P) && (hdr_u == LZMA_VLI_UNKNOWN || hdr_u == g_U);
	lzma_ret expect;
	if (pad_bad) expect = LZMA_DATA_ERROR;
	else if (n < total) expect = LZMA_OK;
	else if (compared && chk_bad) expect = LZMA_DATA_ERROR;
	else expect = LZMA_STREAM_END;

	size_t in_pos = 0, out_pos = 0;
	lzma_ret ret = LZMA_OK;
	for (unsigned k = 0; k < CALLS + 1; ++k) if (ret == LZMA_OK) {
		size_t in_end = n, out_end = NOUT;
		if (k < CALLS) {
			in_end = nd_size(); out_end = nd_size();
			ASSUME(in_end >= in_pos && in_end <= n);
			ASSUME(out_end >= out_pos && out_end <= NOUT);
		}
		const size_t ip0 = in_pos, op0 = out_pos;
		ret = next.code(next.coder, NULL, in, &in_pos, in_end, out, &out_pos, out_end, LZMA_RUN);
		CHECK(in_pos >= ip0 && in_pos <= in_end, "input position stays inside the slice");
		CHECK(out_pos >= op0 && out_pos <= out_end, "output position stays inside the slice");
		CHECK(ret == LZMA_OK || ret == LZMA_STREAM_END || ret == LZMA_DATA_ERROR, "only OK, STREAM_END or DATA_ERROR");
		CHECK(g_ci <= g_P && g_uo <= g_U && out_pos == g_uo, "all produced bytes are delivered");
	}
	/* the last call had all n bytes and room for all output */
	if (ret == LZMA_STREAM_END) {
		CHECK(sizes_ok && expect == LZMA_STREAM_END, "a Block with a wrong declared size, non-zero Block Padding or a Check field that differs is never reported as successfully decoded");
		CHECK(in_pos == total, "the Block ends exactly after padding and Check field");
		CHECK(b.compressed_size == g_P && b.uncompressed_size == g_U, "actual sizes are written back for the Index");
		CHECK(ignore || (g_fed == g_U && g_fed_ok), "exactly the produced bytes went into the integrity check, in order");
		CHECK(csz == 0 || ignore || g_finish_called, "check value finalised before comparing");
		for (size_t i = 0; i < CHKMAX; ++i)
			if (i < csz) CHECK(b.raw_check[i] == in[g_P + pad + i], "raw Check field is handed to the caller");
		WITNESS("valid Block accepted");
		if (compared && csz == 8) WITNESS("8-byte check compared");
	}
	if (sizes_ok) {
		CHECK(ret == expect, "OK while incomplete, STREAM_END exactly for a complete valid body, DATA_ERROR exactly for non-zero padding or (complete body) a differing Check -- for every slicing");
		if (expect != LZMA_DATA_ERROR)
			CHECK(in_pos == (n >= total ? total : n), "input consumed is fixed by the data, not by the slicing");
		else if (pad_bad)
			CHECK(in_pos == first_bad + 1, "rejected right after the first non-zero padding byte, for every slicing");
		else
			CHECK(in_pos == total, "a differing Check is rejected after the whole field was read, for every slicing");
		if (expect == LZMA_DATA_ERROR && pad_bad) WITNESS("non-zero padding rejected");
		if (expect == LZMA_DATA_ERROR && !pad_bad) WITNESS("check mismatch rejected");
	}
	if (!sizes_ok && ret == LZMA_DATA_ERROR) WITNESS("size mismatch rejected");
	if (ret == LZMA_OK && n < total) WITNESS("truncated");
}
