/*
 * stream_decoder.c state machine (stream_decode) from ARBITRARY states of the relevant
 * sequence, serving C03 (sequencing), C05 (comparisons, truncation), C06 (slicing), C09
 * (memlimit gate), C16 (Stream Padding / concatenation rules).
 * Stubbed: index hash (index_hash.c has its own obligations), Block decoder init/code,
 * Block Header decode, raw decoder memusage.  Real: stream_decode, stream flags decoders
 * (linked), lzma_bufcpy.
 */
#include "vcommon.h"
#include "stream_decoder.c"

#ifdef GHOST_CRC
/* CRC32 abstraction as in C03: the CRC of a region is an arbitrary value fixed per
 * (pointer-independent) content: here only the 6-byte footer region is ever hashed. */
static uint32_t ghost_crc;
uint32_t vstub_crc32(const uint8_t *buf, size_t size, uint32_t crc) { (void)buf; (void)size; (void)crc; return ghost_crc; }
#define SPEC_CRC32(p, n) (ghost_crc)
#endif
#include "../../spec/xzspec.h"

/* ---- stubs ---- */
/* The stubs' nondeterministic choices come from a table filled on first use, indexed by a
 * call counter: an obligation that runs the decoder twice on the same input (one call vs.
 * split) rewinds the counter, so that both runs see the SAME Block decoder / Index hash
 * behaviour -- comparing runs in which the environment answered differently is meaningless. */
#define NCH 16
static uint64_t g_choice[NCH];
static unsigned g_ci, g_filled;
static uint64_t ch(void)
{
	CHECK(g_ci < NCH, "harness bound: number of stub choices");
	const unsigned i = g_ci++ % NCH;
	if (i >= g_filled) { g_choice[i] = nd_u64(); g_filled = i + 1; }     /* first use: arbitrary; after a rewind: the recorded answer */
	return g_choice[i];
}
static uint64_t g_hash_size;          /* what lzma_index_hash_size() reports */
static unsigned g_hash_appends, g_hash_inits;
static uint64_t g_last_unpadded, g_last_uncomp;
static int dummy_hash;
lzma_index_hash *lzma_index_hash_init(lzma_index_hash *h, const lzma_allocator *a) { (void)h; (void)a; ++g_hash_inits; return (lzma_index_hash *)&dummy_hash; }
void lzma_index_hash_end(lzma_index_hash *h, const lzma_allocator *a) { (void)h; (void)a; }
lzma_ret lzma_index_hash_append(lzma_index_hash *h, lzma_vli u, lzma_vli c) { (void)h; ++g_hash_appends; g_last_unpadded = u; g_last_uncomp = c; return (ch() & 1) ? LZMA_OK : LZMA_DATA_ERROR; }
lzma_vli lzma_index_hash_size(const lzma_index_hash *h) { (void)h; return g_hash_size; }
lzma_ret lzma_index_hash_decode(lzma_index_hash *h, const uint8_t *in, size_t *in_pos, size_t in_size)
{
	(void)h; (void)in;
	size_t k = (size_t)ch(); ASSUME(k <= in_size - *in_pos);
	*in_pos += k;
	uint32_t r = (uint32_t)ch() % 3;
	return r == 0 ? LZMA_OK : r == 1 ? LZMA_STREAM_END : LZMA_DATA_ERROR;
}
static uint64_t g_memusage; static unsigned g_block_inits;
uint64_t lzma_raw_decoder_memusage(const lzma_filter *f) { (void)f; return g_memusage; }
static lzma_ret g_bhd_ret;
lzma_ret lzma_block_header_decode(lzma_block *b, const lzma_allocator *a, const uint8_t *in)
{
	(void)a; (void)in;
	for (size_t i = 0; i <= LZMA_FILTERS_MAX; ++i) { b->filters[i].id = LZMA_VLI_UNKNOWN; b->filters[i].options = NULL; }
	return g_bhd_ret;
}
void lzma_filters_free(lzma_filter *f, const lzma_allocator *a) { (void)f; (void)a; }
static lzma_ret blk_code(void *c, const lzma_allocator *a, const uint8_t *restrict in, size_t *restrict in_pos, size_t in_size,
		uint8_t *restrict out, size_t *restrict out_pos, size_t out_size, lzma_action action)
{
	(void)c; (void)a; (void)in; (void)out; (void)action;
	size_t ki = (size_t)ch(), ko = (size_t)ch();
	ASSUME(ki <= in_size - *in_pos && ko <= out_size - *out_pos);
	*in_pos += ki; *out_pos += ko;
	uint32_t r = (uint32_t)ch() % 3;
	return r == 0 ? LZMA_OK : r == 1 ? LZMA_STREAM_END : LZMA_DATA_ERROR;
}
lzma_ret lzma_block_decoder_init(lzma_next_coder *next, const lzma_allocator *a, lzma_block *b)
{
	(void)a; (void)b; ++g_block_inits;
	if (ch() & 1) return LZMA_MEM_ERROR;
	next->code = &blk_code; next->coder = &dummy_hash;
	return LZMA_OK;
}

static void base_coder(lzma_stream_coder *c)
{
	static const lzma_stream_coder zero_coder;
	*c = zero_coder;
	g_ci = 0; g_filled = 0;
	c->index_hash = (lzma_index_hash *)&dummy_hash;
	c->memlimit = nd_u64(); if (c->memlimit == 0) c->memlimit = 1;
	c->memusage = LZMA_MEMUSAGE_BASE;
	c->tell_no_check = nd_bool(); c->tell_unsupported_check = nd_bool(); c->tell_any_check = nd_bool();
	c->ignore_check = nd_bool(); c->concatenated = nd_bool(); c->first_stream = nd_bool();
	c->stream_flags.version = 0; c->stream_flags.check = (lzma_check)(nd_u32() & 15);
	c->stream_flags.backward_size = LZMA_VLI_UNKNOWN;
	c->block_decoder = LZMA_NEXT_CODER_INIT;
}

#ifndef NPAD
#define NPAD 9
#endif

/* A. Stream Padding: from any padding state; whole input vs the same input cut in two;
 * and against the rule itself */
void harness_padding(void)
{
	lzma_stream_coder a, b;
	base_coder(&a);
	a.concatenated = true; a.first_stream = false;
	a.sequence = SEQ_STREAM_PADDING;
	a.pos = nd_size(); ASSUME(a.pos < 4);
	size_t pos0 = a.pos;
	b = a;
	uint8_t in[NPAD];
	size_t n = nd_size(); ASSUME(n <= NPAD);
	for (size_t i = 0; i < NPAD; ++i) in[i] = nd_u8();
	bool finish = nd_bool();
	/* run 1: everything in one call */
	size_t ip = 0, op = 0; uint8_t out[1];
	unsigned inits0 = g_hash_inits;
	lzma_ret r1 = stream_decode(&a, NULL, in, &ip, n, out, &op, 0, finish ? LZMA_FINISH : LZMA_RUN);
	bool r1_restarted = g_hash_inits != inits0;
	/* rule: count zero bytes z from the start; first non-zero byte at index z (if any) */
	size_t z = 0; while (z < n && in[z] == 0) ++z;
	size_t total = pos0 + z;
	if (z == n) {
		if (!finish) CHECK(r1 == LZMA_OK && ip == n, "all zeros, more may come: OK");
		else CHECK(r1 == ((total & 3) == 0 ? LZMA_STREAM_END : LZMA_DATA_ERROR) && ip == n, "end of input: padding must be a multiple of four bytes");
	} else if ((total & 3) != 0) {
		CHECK(r1 == LZMA_DATA_ERROR, "a new Stream may only start after padding that is a multiple of four");
	} else {
		CHECK(r1_restarted, "after valid padding the decoder starts over with the next Stream Header");
		CHECK(r1 != LZMA_STREAM_END || false, "a non-zero byte after padding is not the end");
	}
	/* run 2: the same input cut at a symbolic position, the first part with LZMA_RUN */
	size_t k = nd_size(); ASSUME(k <= n);
	size_t ip2 = 0, op2 = 0;
	g_ci = 0;                 /* same environment answers as in run 1 */
	lzma_ret r2 = stream_decode(&b, NULL, in, &ip2, k, out, &op2, 0, LZMA_RUN);
	if (r2 == LZMA_OK && b.sequence == SEQ_STREAM_PADDING) {
		r2 = stream_decode(&b, NULL, in, &ip2, n, out, &op2, 0, finish ? LZMA_FINISH : LZMA_RUN);
		if (z >= k) {
			/* the cut fell inside the zero bytes: results must coincide */
			CHECK(r2 == r1 || (r1 != LZMA_OK && r1 != LZMA_STREAM_END && r1 != LZMA_DATA_ERROR), "same status whether or not the padding is split across calls");
			if (r1 == LZMA_OK || r1 == LZMA_STREAM_END || r1 == LZMA_DATA_ERROR)
				CHECK(r2 == r1, "same status for split padding");
			if (r1 == LZMA_STREAM_END || r1 == LZMA_OK) CHECK(ip2 == ip, "same input consumed");
			if (k > 0 && k < z && (k & 3) != 0 && r1 == LZMA_DATA_ERROR) WITNESS("misaligned padding split across calls is still rejected");
		}
	}
	if (r1 == LZMA_STREAM_END && n >= 4) WITNESS("padding accepted at end of input");
	if (r1_restarted) WITNESS("next Stream after padding");
}

/* B. Stream Footer: accepted only if the footer is valid per spec, Backward Size equals the
 * size of the Index actually decoded and the flags equal the header's */
void harness_footer(void)
{
	lzma_stream_coder c;
	base_coder(&c);
	c.sequence = SEQ_STREAM_FOOTER; c.pos = 0;
	g_hash_size = nd_u64();
	uint8_t f[12];
	nd_bytes(f, 12);
#ifdef GHOST_CRC
	ghost_crc = nd_u32();
#endif
	size_t ip = 0, op = 0; uint8_t out[1];
	lzma_ret r = stream_decode(&c, NULL, f, &ip, 12, out, &op, 0, LZMA_FINISH);
	unsigned chk = 99; uint64_t bs = 0;
	int s = spec_stream_footer(f, &chk, &bs);
	bool good = s == 0 && bs == g_hash_size && chk == (unsigned)c.stream_flags.check;
	bool accepted = r == LZMA_STREAM_END || (c.concatenated && c.sequence == SEQ_STREAM_PADDING);
	if (!c.concatenated) {
		CHECK((r == LZMA_STREAM_END) == good, "single Stream ends successfully exactly when footer valid, Backward Size == Index size, flags == header flags");
		if (!good) CHECK(r == LZMA_DATA_ERROR || r == LZMA_OPTIONS_ERROR, "otherwise an error");
	} else {
		if (good) CHECK(r == LZMA_STREAM_END && c.sequence == SEQ_STREAM_PADDING && c.pos == 0, "concatenated mode: continues with Stream Padding (end of input with zero padding)");
		else CHECK(r == LZMA_DATA_ERROR || r == LZMA_OPTIONS_ERROR, "bad footer is an error in concatenated mode too");
	}
	CHECK(r != LZMA_FORMAT_ERROR, "a bad footer magic is DATA_ERROR, never FORMAT_ERROR");
	(void)accepted;
	if (good) WITNESS("footer accepted");
	if (s == 0 && bs != g_hash_size) WITNESS("valid footer with wrong Backward Size");
}

/* C. Stream Header accumulation: 12 bytes arriving in two pieces == one piece */
void harness_header_split(void)
{
	lzma_stream_coder a, b;
	base_coder(&a);
	a.sequence = SEQ_STREAM_HEADER; a.pos = 0;
	b = a;
	uint8_t h[13];
	nd_bytes(h, 13);
#ifdef GHOST_CRC
	ghost_crc = nd_u32();
#endif
	size_t ip = 0, op = 0; uint8_t out[1];
	lzma_ret r1 = stream_decode(&a, NULL, h, &ip, 12, out, &op, 0, LZMA_RUN);
	size_t k = nd_size(); ASSUME(k <= 12);
	size_t ip2 = 0;
	lzma_ret r2 = stream_decode(&b, NULL, h, &ip2, k, out, &op, 0, LZMA_RUN);
	if (k < 12) {
		CHECK(r2 == LZMA_OK && ip2 == k && b.pos == k, "incomplete header: everything consumed, waits for more");
		r2 = stream_decode(&b, NULL, h, &ip2, 12, out, &op, 0, LZMA_RUN);
	}
	CHECK(r1 == r2 && ip == ip2, "same result for a header delivered in one or two pieces");
	CHECK(a.sequence == b.sequence && a.stream_flags.check == b.stream_flags.check, "same decoder state afterwards");
	if (r1 == LZMA_FORMAT_ERROR) CHECK(a.first_stream, "FORMAT_ERROR only for the first Stream");
	if (!a.first_stream && r1 == LZMA_DATA_ERROR) WITNESS("bad magic of a later Stream is DATA_ERROR");
	if (r1 == LZMA_GET_CHECK) WITNESS("TELL_ANY_CHECK path");
	if (r1 == LZMA_OK && a.sequence == SEQ_BLOCK_HEADER) WITNESS("valid header, continues to Block Header");
}

/* D. memory limit gate (C09): the Block decoder is initialised only if the needed amount
 * fits; otherwise MEMLIMIT_ERROR, the amount is reported, the limit can be raised to exactly
 * that amount (not lower), and the next call resumes at the same point */
void harness_memlimit_gate(void)
{
	lzma_stream_coder c;
	base_coder(&c);
	c.sequence = SEQ_BLOCK_INIT; c.pos = 0;
	c.block_options.header_size = 12;
	g_memusage = nd_u64();
	g_bhd_ret = nd_bool() ? LZMA_OK : LZMA_DATA_ERROR;
	uint64_t limit0 = c.memlimit;
	uint8_t in[4], out[4]; size_t ip = 0, op = 0;
	nd_bytes(in, 4);
	unsigned inits0 = g_block_inits;
	lzma_ret r = stream_decode(&c, NULL, in, &ip, 4, out, &op, 4, LZMA_RUN);
	if (g_bhd_ret != LZMA_OK) { CHECK(r == g_bhd_ret && g_block_inits == inits0, "header error: no init"); return; }
	if (g_memusage == UINT64_MAX) { CHECK(r == LZMA_OPTIONS_ERROR && g_block_inits == inits0, "unsupported chain: no init"); return; }
	if (g_memusage > limit0) {
		CHECK(r == LZMA_MEMLIMIT_ERROR, "needed memory above the limit is refused");
		CHECK(g_block_inits == inits0, "nothing is allocated for the Block when over the limit");
		CHECK(ip == 0 && op == 0, "no input consumed, no output produced");
		CHECK(c.sequence == SEQ_BLOCK_INIT, "decoder stays at the same point");
		uint64_t mu = 0, old = 0;
		CHECK(stream_decoder_memconfig(&c, &mu, &old, 0) == LZMA_OK && mu == g_memusage && old == limit0, "memusage query reports the needed amount");
		uint64_t lower = nd_u64(); ASSUME(lower >= 1 && lower < g_memusage);
		CHECK(stream_decoder_memconfig(&c, &mu, &old, lower) == LZMA_MEMLIMIT_ERROR && c.memlimit == limit0, "a limit below the needed amount is refused and changes nothing");
		CHECK(stream_decoder_memconfig(&c, &mu, &old, g_memusage) == LZMA_OK && c.memlimit == g_memusage, "raising the limit to exactly the needed amount is accepted");
		r = stream_decode(&c, NULL, in, &ip, 4, out, &op, 4, LZMA_RUN);
		CHECK(g_block_inits == inits0 + 1, "after raising the limit the Block decoder is initialised");
		CHECK(r != LZMA_MEMLIMIT_ERROR, "and decoding proceeds");
		WITNESS("limit raised and decoding resumed");
	} else {
		CHECK(g_block_inits == inits0 + 1, "within the limit: initialised");
		CHECK(c.memusage == g_memusage, "memusage recorded");
		WITNESS("within limit");
	}
}

/* E. Block finished: the Index record appended is (Unpadded Size, Uncompressed Size) of the
 * Block just decoded; errors of the Block decoder pass through; truncated input never ends */
void harness_block_run(void)
{
	lzma_stream_coder c;
	base_coder(&c);
	c.sequence = SEQ_BLOCK_RUN;
	c.block_decoder.code = &blk_code; c.block_decoder.coder = &dummy_hash;
	c.block_options.header_size = 12; c.block_options.version = 1;
	c.block_options.check = c.stream_flags.check;
	c.block_options.compressed_size = nd_u64(); c.block_options.uncompressed_size = nd_u64();
	ASSUME(c.block_options.compressed_size >= 1 && c.block_options.compressed_size <= (1ull << 60));
	ASSUME(c.block_options.uncompressed_size <= LZMA_VLI_MAX);
	uint8_t in[4], out[4]; size_t ip = 0, op = 0;
	nd_bytes(in, 4);
	unsigned app0 = g_hash_appends;
	const lzma_block before = c.block_options;   /* the decoder moves on to the next Block Header afterwards */
	lzma_ret r = stream_decode(&c, NULL, in, &ip, 4, out, &op, 4, nd_bool() ? LZMA_FINISH : LZMA_RUN);
	CHECK(r != LZMA_STREAM_END, "the Stream never ends inside or right after a Block");
	if (g_hash_appends > app0) {
		CHECK(g_last_unpadded == before.header_size + before.compressed_size + spec_check_size(before.check), "Index hash gets Unpadded Size = header + compressed + check");
		CHECK(g_last_uncomp == before.uncompressed_size, "and the Uncompressed Size");
		WITNESS("Block finished and recorded");
	}
}
