# C05 -- corruption and truncation never reported as success (container layers)
S = "src/liblzma/"
SD_UNITS = [S + x for x in ["common/common.c", "common/stream_flags_decoder.c", "common/stream_flags_common.c", "common/block_util.c", "check/check.c"]]
CRC = [S + "check/crc32_fast.c"]
FL = ["--object-bits", "10"]
SD_STUBS = ["lzma_index_hash_* (index_hash.c has its own obligations): size() returns an arbitrary value, decode() consumes arbitrary amounts and returns OK/STREAM_END/DATA_ERROR",
            "Block decoder: init may fail, code() consumes/produces arbitrary amounts and returns OK/STREAM_END/DATA_ERROR; lzma_block_header_decode / lzma_raw_decoder_memusage return arbitrary values",
            "lzma_crc32 abstracted to one arbitrary value seen by decoder and spec parser"]
SDF = ["stream_decode", "lzma_stream_header_decode", "lzma_stream_footer_decode", "lzma_stream_flags_compare", "lzma_bufcpy", "stream_decoder_memconfig", "stream_decoder_reset"]
G = ["GHOST_CRC", "lzma_crc32=vstub_crc32", "VLOOP_MEM"]
OBLIGATIONS = [
    Obligation(name="stream_padding_rule", src="streamdec.c", func="harness_padding", defs=G, qdefs=["NPAD=9"], tdefs=["NPAD=17"], qunwind=12, tunwind=20,
        units=SD_UNITS, flags=FL, functions=SDF, stubs=SD_STUBS, timeout_q=280, timeout_t=1800, unwindset=[("stream_decode", "^0", 3)], fp_restrict=["stream_decode.function_pointer_call.1/blk_code"],
        desc="Stream Padding from ANY padding state (0-3 bytes seen mod 4): zero bytes are accepted only in multiples of four before the next Stream or the end of input (LZMA_FINISH needed to end); the status and the input consumed are the same whether the padding arrives in one call or split at any point",
        bounds_q="<= 9 input bytes, one symbolic cut", bounds_t="<= 17 input bytes"),
    Obligation(name="stream_footer_checks", src="streamdec.c", func="harness_footer", defs=G, unwind=14, units=SD_UNITS, flags=FL, functions=SDF, stubs=SD_STUBS,
        desc="Stream Footer state for every 12-byte string, every header check id and every Index size: success (STREAM_END, or continuing to Stream Padding in concatenated mode) exactly when the footer is valid per spec AND Backward Size == size of the decoded Index AND footer flags == header flags; bad magic is DATA_ERROR",
        bounds_q="all 2^96 footers, all index sizes"),
    Obligation(name="stream_header_split", src="streamdec.c", func="harness_header_split", defs=G, unwind=14, unwindset=[("stream_decode", "^0", 3)], fp_restrict=["stream_decode.function_pointer_call.1/blk_code"], units=SD_UNITS, flags=FL, functions=SDF, stubs=SD_STUBS,
        desc="Stream Header delivered in one piece or cut at any byte: same status, same input consumed, same decoder state; FORMAT_ERROR only for the first Stream",
        bounds_q="all 12-byte headers, all cut points, all decoder flags"),
    Obligation(name="block_to_index_record", src="streamdec.c", func="harness_block_run", defs=G, unwind=6, unwindset=[("stream_decode", "^0", 3)], fp_restrict=["stream_decode.function_pointer_call.1/blk_code"], units=SD_UNITS, flags=FL, functions=SDF, stubs=SD_STUBS,
        desc="when the Block decoder reports its end, the record given to the Index hash is (header+compressed+check size, uncompressed size) of that Block; the Stream never reports STREAM_END from the Block state (truncated files are never complete)",
        bounds_q="all size values"),
]
HDR_UNITS = [S + x for x in ["common/stream_flags_decoder.c", "common/stream_flags_common.c",
    "common/block_header_decoder.c", "common/filter_flags_decoder.c", "common/filter_decoder.c",
    "common/filter_common.c", "common/vli_decoder.c", "common/block_util.c", "check/check.c",
    "common/common.c", "lzma/lzma2_decoder.c", "lzma/lzma_decoder.c", "simple/simple_decoder.c",
    "delta/delta_decoder.c", "delta/delta_common.c", "check/crc32_fast.c"]]
OBLIGATIONS += [
    Obligation(name="bitflip_stream_header", src="flip.c", func="harness_flip_stream_header", unwind=13, units=HDR_UNITS, flags=FL,
        functions=["lzma_stream_header_decode", "lzma_crc32"], desc="for every accepted 12-byte Stream Header and every bit position: the flipped header is rejected (real CRC32)",
        bounds_q="all headers x 96 bit positions"),
    Obligation(name="bitflip_stream_footer", src="flip.c", func="harness_flip_stream_footer", unwind=13, units=HDR_UNITS, flags=FL, timeout_t=1800, tiers=("thorough",),
        functions=["lzma_stream_footer_decode", "lzma_crc32"], desc="for every accepted 12-byte Stream Footer and every bit position: the flipped footer is rejected (real CRC32)",
        bounds_q="all footers x 96 bit positions"),
    Obligation(name="bitflip_block_header_8", src="flip.c", func="harness_flip_block_header", defs=["HS=8"], unwind=10, units=HDR_UNITS, flags=FL, timeout_q=280,
        unwindset=[("decoder_find", "", 16)], functions=["lzma_block_header_decode", "lzma_crc32"],
        desc="for every accepted 8-byte Block Header and every bit position after the size byte: the flipped header is rejected (real CRC32 over 4 bytes)",
        bounds_q="header size 8"),
    Obligation(name="bitflip_block_header_12", src="flip.c", func="harness_flip_block_header", defs=["HS=12"], unwind=14, units=HDR_UNITS, flags=FL, timeout_q=280, timeout_t=1800,
        unwindset=[("decoder_find", "", 16)], functions=["lzma_block_header_decode", "lzma_crc32"], tiers=("thorough",),
        desc="same for 12-byte Block Headers (real CRC32 over 8 bytes)", bounds_q="header size 12"),
]
OBLIGATIONS_C09 = [
    Obligation(name="stream_decoder_memlimit_gate", src="streamdec.c", func="harness_memlimit_gate", defs=G, unwind=8, units=SD_UNITS, flags=FL, functions=SDF, stubs=SD_STUBS,
        unwindset=[("stream_decode", "^0", 3)], fp_restrict=["stream_decode.function_pointer_call.1/blk_code"],
        desc=".xz Stream decoder at Block initialisation for every needed amount and limit: the Block decoder is initialised only if the amount fits; otherwise MEMLIMIT_ERROR with no input consumed, nothing allocated, the needed amount reported by memconfig, limits below it refused, the exact amount accepted, and the next call resumes at the same point and initialises the Block decoder",
        bounds_q="all 64-bit usage/limit values"),
]
# Block decoder body: payload accounting, Block Padding, Check field (also serves C03/C04/C06)
BD_UNITS = [S + "common/common.c", S + "check/check.c", S + "common/block_util.c"]
OBLIGATIONS.append(Obligation(
    name="block_body_rules", src="blockdec.c", func="harness_block_body", units=BD_UNITS,
    defs=["VLOOP_MEM", "VLOOP_MEM_ONECHECK"], qdefs=["PMAX=5", "CHKMAX=8", "CALLS=2"], tdefs=["PMAX=6", "CHKMAX=8", "CALLS=3"],
    hdefs=["lzma_raw_decoder_init=vstub_raw_decoder_init", "lzma_check_init=vstub_check_init",
           "lzma_check_update=vstub_check_update", "lzma_check_finish=vstub_check_finish"],
    qunwind=19, tunwind=20, timeout_q=400, timeout_t=3600, mem_gb=12,
    fp_restrict=["harness_block_body.function_pointer_call.1/block_decode",
                 "block_decode.function_pointer_call.1/raw_code"],
    functions=["lzma_block_decoder_init", "block_decode", "is_size_valid", "lzma_check_size",
               "lzma_check_is_supported", "lzma_block_unpadded_size", "lzma_bufcpy"],
    stubs=["filter chain (lzma_raw_decoder_init / next.code): payload is P compressed bytes decoding to U bytes; each call consumes/produces arbitrary amounts within its limits, STREAM_END exactly when both complete, otherwise returns only when it lacks needed input or room for pending output",
           "lzma_check_init/update/finish: the check value over the produced bytes is an arbitrary byte string EXP; the harness verifies that exactly the produced bytes are fed, in order"],
    desc="Block decoder (lzma_block_decoder_init + block_decode) on every Block body and every slicing: for "
         "header sizes that are absent or right the result is OK while incomplete, STREAM_END exactly for a "
         "complete body with zero Block Padding and matching Check field, DATA_ERROR exactly for non-zero "
         "padding or a differing Check (unless None / unsupported / ignore_check); with a wrong declared "
         "Compressed or Uncompressed Size STREAM_END is never returned; on success the Block ends exactly "
         "after the Check field, actual sizes and the raw Check are handed back, exactly the produced bytes "
         "were fed to the integrity check; no out-of-bounds access",
    bounds_q="payload 1..5 compressed / 0..5 uncompressed bytes, every Check id with field size <= 8, Block version 0/1, 2 symbolic cut points for input and output + final call",
    bounds_t="payload <= 6 bytes, 3 cut points (32-byte Check fields: block_body_rules_check32)",
    outside="the filter chain itself; Check ids with 64-byte fields; payloads beyond the bound (the accounting is by counters, not by content)"))
OBLIGATIONS.append(Obligation(
    name="block_body_rules_check32", tiers=("thorough",), src="blockdec.c", func="harness_block_body", units=BD_UNITS,
    defs=["VLOOP_MEM", "VLOOP_MEM_ONECHECK"], tdefs=["PMAX=2", "CHKMAX=32", "CALLS=1"],
    hdefs=["lzma_raw_decoder_init=vstub_raw_decoder_init", "lzma_check_init=vstub_check_init",
           "lzma_check_update=vstub_check_update", "lzma_check_finish=vstub_check_finish"],
    tunwind=40, timeout_q=400, timeout_t=3600, mem_gb=12,
    fp_restrict=["harness_block_body.function_pointer_call.1/block_decode",
                 "block_decode.function_pointer_call.1/raw_code"],
    functions=["lzma_block_decoder_init", "block_decode", "is_size_valid", "lzma_check_size",
               "lzma_check_is_supported", "lzma_block_unpadded_size", "lzma_bufcpy"],
    stubs=["filter chain (lzma_raw_decoder_init / next.code): payload is P compressed bytes decoding to U bytes; each call consumes/produces arbitrary amounts within its limits, STREAM_END exactly when both complete, otherwise returns only when it lacks needed input or room for pending output",
           "lzma_check_init/update/finish: the check value over the produced bytes is an arbitrary byte string EXP; the harness verifies that exactly the produced bytes are fed, in order"],
    desc="Block decoder (lzma_block_decoder_init + block_decode) on every Block body and every slicing: for "
         "header sizes that are absent or right the result is OK while incomplete, STREAM_END exactly for a "
         "complete body with zero Block Padding and matching Check field, DATA_ERROR exactly for non-zero "
         "padding or a differing Check (unless None / unsupported / ignore_check); with a wrong declared "
         "Compressed or Uncompressed Size STREAM_END is never returned; on success the Block ends exactly "
         "after the Check field, actual sizes and the raw Check are handed back, exactly the produced bytes "
         "were fed to the integrity check; no out-of-bounds access",
    bounds_q="payload 1..5 compressed / 0..5 uncompressed bytes, every Check id with field size <= 8, Block version 0/1, 2 symbolic cut points for input and output + final call",
    bounds_t="payload <= 2 bytes, every Check id with field size <= 32 (adds SHA-256-sized fields), one cut point + final call",
    outside="the filter chain itself; Check ids with 64-byte fields; payloads beyond the bound (the accounting is by counters, not by content)"))
# Index verification (index_hash.c) vs the one valid encoding of the decoded Blocks
IH_UNITS = [S + "common/common.c", S + "common/vli_decoder.c", S + "common/vli_size.c", S + "check/check.c"]
for _nm, _tiers, _k, _calls, _unw, _to in [("index_hash_exact_1call", ("quick", "thorough"), 1, 0, 16, 600), ("index_hash_exact_sliced", ("thorough",), 1, 1, 16, 2400), ("index_hash_exact_2rec", ("thorough",), 2, 1, 20, 6000)]:
  OBLIGATIONS.append(Obligation(
    name=_nm, tiers=_tiers, src="idxhash.c", func="harness_index_hash", units=IH_UNITS,
    defs=["lzma_crc32=vstub_crc32", "KMAX=%d" % _k, "VBITS=14", "CALLS=%d" % _calls],
    hdefs=["lzma_check_init=vstub_check_init2", "lzma_check_update=vstub_check_update2", "lzma_check_finish=vstub_check_finish2"],
    unwind=_unw, timeout_q=_to, timeout_t=_to, mem_gb=14,
    unwindset=[("lzma_vli_decode", "", 10), ("lzma_vli_size", "", 10), ("lzma_index_hash_decode", "^1", 5)],
    functions=["lzma_index_hash_init", "lzma_index_hash_append", "lzma_index_hash_decode", "hash_append",
               "lzma_index_hash_size", "lzma_vli_decode", "lzma_vli_size", "lzma_check_size"],
    stubs=["lzma_crc32: coverage tracker -- the value is the number of bytes fed so far if they were fed contiguously from the first Index byte, poisoned otherwise (real CRC32: C14)",
           "lzma_check_init/update/finish (the SHA-256 that summarises the Record list): exact recorder -- the 32-byte digest is the two (unpadded, uncompressed) pairs themselves, so digest equality is list equality"],
    desc="Index verification of the stream decoder (lzma_index_hash_append x K, then lzma_index_hash_decode): "
         "for every K<=%d Blocks with arbitrary sizes and EVERY byte string offered as Index, %s: " % (_k, "given in one call" if _calls == 0 else "cut at an arbitrary point into two calls") +
         "STREAM_END exactly when the bytes are the specified encoding of those Blocks (indicator, count, "
         "minimal VLIs, zero padding, CRC32), ending exactly after the CRC32; a proper prefix is OK "
         "(incomplete) with all input consumed; any differing byte is never accepted; "
         "lzma_index_hash_size() equals the size of that encoding; no out-of-bounds access",
    bounds_q="K <= %d Block(s), sizes < 2^14 (VLIs of 1-2 bytes), every byte string of <= %d bytes as Index, %d symbolic cut point(s)" % (_k, 9 + 4 * _k, _calls),
    outside="more than two Records (the digest abstraction holds two); sizes beyond the bound (the full-range VLI decoder is decided in C06 vli_decode obligations)"))
OBLIGATIONS += reuse("C02", r"block_(unpadded|compressed)_size_arith")   # Unpadded Size <-> Compressed Size arithmetic used to cross-check Block and Index
OBLIGATIONS += reuse("C03", r"lzma2_chunk_layer|index_decoder_vs_spec|index_buffer_decode")   # corrupt LZMA2 chunk headers / sizes, damaged or truncated Index fields never accepted
