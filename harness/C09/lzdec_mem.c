/*
 * C09 O-a: memory estimate vs actual allocation of the LZ decoder layer
 * (lz_decoder.c: lzma_lz_decoder_init / lzma_lz_decoder_memusage) for every dictionary size.
 */
#include "vcommon.h"
#include "lz_decoder.c"

static uint64_t g_requested; static unsigned g_allocs;
static uint8_t arena[2048];
void *lzma_alloc(size_t size, const lzma_allocator *a)
{
	(void)a; ++g_allocs; g_requested += size;
	if (size <= sizeof(lzma_coder)) { void *p = malloc(sizeof(lzma_coder)); VMALLOC_NONNULL(p); return p; }
	return arena;   /* the dictionary: only its first bytes are touched by init */
}
void lzma_free(void *p, const lzma_allocator *a) { (void)a; if (p != (void *)arena) free(p); }
static lzma_lz_options g_o;
static lzma_ret my_init(lzma_lz_decoder *lz, const lzma_allocator *a, lzma_vli id, const void *opt, lzma_lz_options *o)
{ (void)lz; (void)a; (void)id; (void)opt; *o = g_o; return LZMA_OK; }

void harness_lz_decoder_mem(void)
{
	g_o.dict_size = nd_u32();     /* every dictionary size a header can declare */
	g_o.preset_dict = NULL; g_o.preset_dict_size = 0;
	lzma_next_coder next = LZMA_NEXT_CODER_INIT;
	lzma_filter_info fi[2];
	fi[0].id = LZMA_FILTER_LZMA2; fi[0].init = NULL; fi[0].options = NULL;
	fi[1].id = LZMA_VLI_UNKNOWN; fi[1].init = NULL; fi[1].options = NULL;
	lzma_ret r = lzma_lz_decoder_init(&next, NULL, fi, &my_init);
	CHECK(r == LZMA_OK, "init succeeds when allocations succeed");
	uint64_t est = lzma_lz_decoder_memusage(g_o.dict_size);
	CHECK(g_requested <= est + LZMA_MEMUSAGE_BASE, "bytes actually requested <= estimate + the fixed allowance the public functions add (LZMA_MEMUSAGE_BASE)");
	lzma_coder *c = next.coder;
	uint64_t want = g_o.dict_size < 4096 ? 4096 : g_o.dict_size;
	want = (want + 15) & ~(uint64_t)15;
	CHECK(c->dict.size == want + 2 * LZ_DICT_REPEAT_MAX, "documented relaxation only: dictionary raised to 4 KiB and rounded up to 16, plus the repeat buffers");
	CHECK(g_requested == sizeof(lzma_coder) + c->dict.size + LZ_DICT_EXTRA, "exactly the coder and the dictionary are allocated");
	if (g_o.dict_size < 4096) WITNESS("tiny declared dictionary");
	if (g_o.dict_size > (1u << 31)) WITNESS("huge declared dictionary");
}
