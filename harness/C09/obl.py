# C09 -- memory limits honoured; estimates are upper bounds
S = "src/liblzma/"
FL = ["--object-bits", "10"]
OBLIGATIONS = [
    Obligation(name="lz_decoder_estimate", src="lzdec_mem.c", func="harness_lz_decoder_mem", defs=["VLOOP_MEM"], unwind=6, units=[S + "common/common.c"], flags=FL,
        hdefs=["lzma_alloc=vstub_alloc", "lzma_free=vstub_free"], fp_restrict=[],
        functions=["lzma_lz_decoder_init", "lzma_lz_decoder_memusage", "lz_decoder_reset"],
        stubs=["counting allocator (records every requested size; the dictionary request is served from a small arena because init only touches its first bytes)", "the LZ-based decoder behind it only supplies lzma_lz_options"],
        desc="for EVERY 32-bit dictionary size a header can declare: lzma_lz_decoder_init requests exactly sizeof(coder) + (max(dict,4096) rounded up to 16) + 2*288 + LZ_DICT_EXTRA bytes, and that is <= lzma_lz_decoder_memusage(dict) + LZMA_MEMUSAGE_BASE (the allowance every public memusage function adds)",
        bounds_q="all 2^32 dictionary sizes"),
    Obligation(name="lz_encoder_estimate", src="lzenc_mem.c", func="harness_lz_encoder_mem", defs=["VLOOP_MEM"], unwind=20, units=[S + "common/common.c"], flags=FL,
        hdefs=["lzma_alloc=vstub_alloc", "lzma_alloc_zero=vstub_alloc_zero", "lzma_free=vstub_free"],
        functions=["lzma_lz_encoder_memusage", "lz_encoder_prepare", "lz_encoder_init"],
        stubs=["counting allocator; match-finder entry points empty"],
        desc="for every LZ encoder option set (all dictionary sizes, 5 match finders, nice_len, before/after sizes): lzma_lz_encoder_memusage refuses exactly what lz_encoder_prepare refuses; otherwise the bytes lz_encoder_init requests (window+guard, hash, son) plus the coder struct are <= the estimate + LZMA_MEMUSAGE_BASE (and short of the raw estimate by at most the guard bytes); the arithmetic does not wrap",
        bounds_q="all 32-bit dict sizes, before/after < 64 KiB"),
]
OBLIGATIONS += reuse("C16", r"alone_header_rules")     # .lzma: memory-limit gate before initialisation
import importlib.util as _u, os as _os
_sp = _u.spec_from_file_location("c05obl", _os.path.join(_os.path.dirname(__file__), "..", "C05", "obl.py"))
_m = _u.module_from_spec(_sp); _m.Obligation = Obligation; _m.reuse = reuse; _sp.loader.exec_module(_m)
import copy as _c
for _o in _m.OBLIGATIONS_C09:
    _x = _c.copy(_o); _x.src = "../C05/" + _o.src; OBLIGATIONS.append(_x)
OBLIGATIONS += [
    Obligation(name="xz_memlimit_dictionary_adjustment", src="../C18/xzcoder.c", func="harness_memlimit_settings", lib="xz", defs=["SMALL_IOBUF"], unwind=13, flags=FL, timeout_q=280,
        functions=["coder_set_compression_settings", "get_chains_memusage", "memlimit_too_small"],
        stubs=["library memory-usage functions = a monotone model (100000 + 11 * dictionary size of the chain's LZMA filter); hardware_memlimit_get returns the symbolic limit; message()/uint64_to_str stubs; message_fatal ends the path; single-threaded branch (hardware_threads_is_mt false)"],
        desc="xz -T1 compress to .xz with a user memory limit, filter chain 0 and any of --filters1/--filters2 in use, dictionaries 1..7 MiB, any limit: when coder_set_compression_settings returns, EVERY chain in use fits the limit; dictionaries only shrink, only with auto-adjust allowed, in whole MiB steps, never below 1 MiB; otherwise xz fails (message_fatal)",
        bounds_q="3 chains, dictionaries 1..7 MiB, all limits"),
]
OBLIGATIONS += reuse("C07", r"direct_mode_memory")   # threaded decoder: direct mode holds only the filter memory
OBLIGATIONS += reuse("C03", r"index_decoder_vs_spec|index_buffer_decode")   # Index decoder: memory gate right after the Record count, memconfig, *memlimit update
