/*
 * C09 O-b: memory estimate vs actual allocation of the LZ encoder layer (lz_encoder.c)
 * for every option set the LZMA encoder can pass.
 */
#include "vcommon.h"
#include "lz_encoder.c"

static uint64_t g_requested; static unsigned g_allocs;
static uint8_t arena[64];
void *lzma_alloc(size_t size, const lzma_allocator *a)
{
	(void)a; ++g_allocs; g_requested += size;
	void *p = malloc(size);   /* real (symbolic) size: init writes the guard bytes after the window */
	VMALLOC_NONNULL(p);
	return p;
}
void *lzma_alloc_zero(size_t size, const lzma_allocator *a) { return lzma_alloc(size, a); }
void lzma_free(void *p, const lzma_allocator *a) { (void)a; free(p); }
#define MFSTUB(n) uint32_t lzma_mf_##n##_find(lzma_mf *mf, lzma_match *m) { (void)mf; (void)m; return 0; } \
	void lzma_mf_##n##_skip(lzma_mf *mf, uint32_t k) { (void)mf; (void)k; }
MFSTUB(hc3) MFSTUB(hc4) MFSTUB(bt2) MFSTUB(bt3) MFSTUB(bt4)

void harness_lz_encoder_mem(void)
{
	lzma_lz_options o;
	o.before_size = nd_u32() & 0xFFFF; o.after_size = nd_u32() & 0xFFFF;
	o.dict_size = nd_u32(); o.match_len_max = nd_u32() & 0x1FF; o.nice_len = nd_u32() & 0x1FF;
	static const lzma_match_finder mfs[5] = { LZMA_MF_HC3, LZMA_MF_HC4, LZMA_MF_BT2, LZMA_MF_BT3, LZMA_MF_BT4 };
	o.match_finder = mfs[nd_u32() % 5];
	o.depth = nd_u32(); o.preset_dict = NULL; o.preset_dict_size = 0;
	ASSUME(o.match_len_max >= 2 && o.nice_len >= 4 && o.nice_len <= o.match_len_max);
	uint64_t est = lzma_lz_encoder_memusage(&o);
	static lzma_mf mf;
	bool bad = lz_encoder_prepare(&mf, NULL, &o);
	CHECK((est == UINT64_MAX) == bad, "estimate refuses exactly the option sets the encoder refuses");
	if (bad) { WITNESS("refused options"); return; }
	/* what lz_encoder_init requests: window + guard bytes, hash table, son table (it does not
	 * touch them beyond the guard bytes, so the requests are observed through the allocator) */
	mf.buffer = NULL; mf.hash = NULL; mf.son = NULL;
	g_requested = 0;
	bool fail = lz_encoder_init(&mf, NULL, &o);
	CHECK(!fail, "init succeeds when allocations succeed");
	CHECK(g_allocs == 3, "window, hash, son");
	CHECK(g_requested + sizeof(lzma_coder) <= est + LZMA_MEMUSAGE_BASE, "bytes actually requested (incl. the coder struct) <= estimate + the fixed allowance the public functions add");
	CHECK(g_requested + sizeof(lzma_coder) <= est + LZMA_MEMCMPLEN_EXTRA, "in fact the estimate is short by at most the guard bytes after the window");
	CHECK(est < ((uint64_t)1 << 36), "estimate arithmetic does not wrap");
	WITNESS("accepted options");
}
