/*
 * C08 (thread-modular): the encoder's worker thread function worker_start()/worker_encode()
 * of stream_encoder_mt.c, executed ALONE against an environment that, at every lock
 * acquisition and every condition wait, changes the shared fields in any way the main thread
 * is allowed to (rely), while the worker's own changes are checked at every unlock
 * (guarantee) together with lock, signal and hand-over discipline.  Covers every interleaving
 * and any number of other threads as far as these per-critical-section conditions go; it is
 * not an interleaving exploration (deadlock freedom follows from the checked discipline by
 * argument, see DESIGN.md).
 */
#include "vcommon.h"
#include <pthread.h>
#include <time.h>
#include <signal.h>

static int v_mutex_lock(pthread_mutex_t *m);
static int v_mutex_unlock(pthread_mutex_t *m);
static int v_cond_wait(pthread_cond_t *c, pthread_mutex_t *m);
static int v_cond_signal(pthread_cond_t *c);
#define pthread_mutex_lock(m) v_mutex_lock(m)
#define pthread_mutex_unlock(m) v_mutex_unlock(m)
#define pthread_cond_wait(c, m) v_cond_wait(c, m)
#define pthread_cond_timedwait(c, m, t) v_cond_wait(c, m)
#define pthread_cond_signal(c) v_cond_signal(c)
#define pthread_mutex_init(m, a) 0
#define pthread_mutex_destroy(m) (g_destroyed_mutex = true, 0)
#define pthread_cond_init(c, a) 0
#define pthread_cond_destroy(c) 0
#define pthread_create(t, a, f, x) 0
#define pthread_join(t, r) 0
#define pthread_sigmask(h, s, o) 0
#define pthread_condattr_init(a) 1
static bool g_destroyed_mutex;

#include "stream_encoder_mt.c"

/* ---- Block encoder and friends: contract stubs ---- */
static int dummy;
static lzma_ret enc_code(void *c, const lzma_allocator *a, const uint8_t *restrict in, size_t *restrict in_pos, size_t in_size,
		uint8_t *restrict out, size_t *restrict out_pos, size_t out_size, lzma_action action)
{
	(void)c; (void)a; (void)in; (void)out;
	size_t ki = nd_size(), ko = nd_size();
	ASSUME(ki <= in_size - *in_pos && ko <= out_size - *out_pos);
	*in_pos += ki; *out_pos += ko;
	uint32_t r = nd_u32() % 3;
	static unsigned calls;
	/* bound: by the third call the Block ends, fails, or the output buffer is full */
	if (++calls >= 3) ASSUME(r != 0 || *out_pos == out_size);
	if (r == 1) { ASSUME(action == LZMA_FINISH && *in_pos == in_size); return LZMA_STREAM_END; }
	return r == 0 ? LZMA_OK : LZMA_MEM_ERROR;
}
lzma_ret lzma_block_header_size(lzma_block *b) { b->header_size = 12; return nd_bool() ? LZMA_OK : LZMA_OPTIONS_ERROR; }
lzma_ret lzma_block_encoder_init(lzma_next_coder *n, const lzma_allocator *a, lzma_block *b) { (void)a; (void)b; if (nd_bool()) return LZMA_MEM_ERROR; n->code = &enc_code; n->coder = &dummy; return LZMA_OK; }
lzma_ret lzma_block_header_encode(const lzma_block *b, uint8_t *out) { (void)b; (void)out; return nd_bool() ? LZMA_OK : LZMA_PROG_ERROR; }
lzma_ret lzma_block_uncomp_encode(lzma_block *b, const uint8_t *in, size_t in_size, uint8_t *out, size_t *out_pos, size_t out_size)
{ (void)b; (void)in; (void)out; size_t k = nd_size(); ASSUME(k <= out_size && k >= in_size); *out_pos = k; return nd_bool() ? LZMA_OK : LZMA_BUF_ERROR; }
lzma_vli lzma_block_unpadded_size(const lzma_block *b) { (void)b; return 20; }
void lzma_filters_free(lzma_filter *f, const lzma_allocator *a) { (void)f; (void)a; }
void lzma_next_end(lzma_next_coder *n, const lzma_allocator *a) { (void)n; (void)a; }
void lzma_free(void *p, const lzma_allocator *a) { (void)p; (void)a; }

/* ---- the shared objects ---- */
#define BLOCK 8
static lzma_stream_coder C;
static worker_thread T;
static struct { lzma_outbuf b; uint8_t data[24]; } OB;
static uint8_t inbuf[BLOCK];

/* ---- ghost state ---- */
static bool held_thr, held_coder;
static bool sig_thr, sig_coder;            /* signalled inside the current critical section */
static worker_state snap_state; static size_t snap_in_size; static uint64_t snap_pin, snap_pout;
static lzma_ret snap_err; static worker_thread *snap_free; static bool snap_finished; static size_t snap_pos;
static uint64_t snap_cpin, snap_cpout;
static bool idle_published;                 /* the worker has set IDLE (or seen EXIT) for the current job */
static unsigned pushes, jobs_started;
static unsigned waits;                      /* fairness: the environment makes progress after a few waits */
static unsigned stops;
static bool job_over;                       /* after one job the main thread ends the threads (bound) */

/* what the main thread may do to the fields protected by thr->mutex while the worker does
 * not hold it (rely) */
static void main_interferes_thr(void)
{
	worker_state s = T.state;
	/* state: IDLE -> RUN only for a thread taken from the free list (i.e. after the worker
	 * pushed itself), RUN -> FINISH, anything -> STOP or EXIT; never back to IDLE */
	uint32_t k = nd_u32() % 4;
	if (job_over) T.state = THR_EXIT;
	else if (k == 1 && s == THR_RUN) T.state = THR_FINISH;
	else if (k == 2 && stops < 1) { T.state = THR_STOP; ++stops; }   /* bound: one stop request */
	else if (k == 3) T.state = THR_EXIT;
	/* input only grows, only while the job is running, never beyond the block size */
	if (T.state == THR_RUN || (s == THR_RUN && T.state == THR_FINISH)) {
		size_t n = nd_size(); ASSUME(n >= T.in_size && n <= BLOCK);
		T.in_size = n;
	}
}
static void main_interferes_coder(void)
{
	/* main pops the free list, reads progress and errors, never writes the worker's outbuf */
	if (nd_bool()) C.threads_free = NULL;
	if (nd_bool() && C.thread_error == LZMA_OK) C.thread_error = (lzma_ret)(1 + nd_u32() % 10);   /* another worker's error */
}
static int v_mutex_lock(pthread_mutex_t *m)
{
	CHECK(!held_thr && !held_coder, "the worker never holds two mutexes (no lock-order problem)");
	CHECK(!g_destroyed_mutex, "no use of a destroyed mutex");
	if (m == &T.mutex) {
		main_interferes_thr();
		held_thr = true; sig_thr = false;
		snap_state = T.state; snap_in_size = T.in_size; snap_pin = T.progress_in; snap_pout = T.progress_out;
	} else {
		CHECK(m == &C.mutex, "only the thread's and the coder's mutex are used");
		main_interferes_coder();
		held_coder = true; sig_coder = false;
		snap_err = C.thread_error; snap_free = C.threads_free; snap_finished = OB.b.finished; snap_pos = OB.b.pos;
		snap_cpin = C.progress_in; snap_cpout = C.progress_out;
	}
	return 0;
}
static void guarantee_thr(void)
{
	/* what the worker may have done while holding thr->mutex */
	CHECK(T.in_size == snap_in_size, "the worker never changes in_size (owned by the main thread)");
	if (T.state != snap_state) {
		CHECK(T.state == THR_IDLE && snap_state != THR_EXIT && snap_state != THR_IDLE, "the worker only ever moves its state to IDLE, and never overrides an EXIT request");
		CHECK(sig_thr, "a state change is signalled on thr->cond before the mutex is released (threads_stop waits for IDLE there)");
		idle_published = true;
	}
	if (T.state == THR_EXIT) idle_published = true;   /* main is ending the thread: it will not be reused */
}
static void guarantee_coder(void)
{
	if (C.thread_error != snap_err) CHECK(snap_err == LZMA_OK && C.thread_error != LZMA_OK && C.thread_error != LZMA_STREAM_END, "only the first error is recorded, and it is a real error code");
	bool changed = C.thread_error != snap_err || C.threads_free != snap_free || OB.b.finished != snap_finished || C.progress_in != snap_cpin || C.progress_out != snap_cpout;
	if (changed) CHECK(sig_coder, "every change the main thread waits for (error, free thread, finished buffer, progress) is signalled on coder->cond inside the same critical section: no lost wake-up");
	if (C.threads_free != snap_free) {
		CHECK(C.threads_free == &T && T.next == snap_free, "the worker pushes exactly itself onto the free list");
		CHECK(idle_published, "a worker appears on the free list only after it has published the IDLE state: the main thread sets RUN on free-list threads without looking");
		++pushes;
		job_over = true;
	}
	if (OB.b.finished && !snap_finished) CHECK(OB.b.pos <= OB.b.allocated, "a finished buffer's fill level is within its allocation");
	CHECK(C.progress_in >= snap_cpin && C.progress_out >= snap_cpout, "progress totals never decrease");
}
static int v_mutex_unlock(pthread_mutex_t *m)
{
	if (m == &T.mutex) { CHECK(held_thr, "unlock of a held mutex"); guarantee_thr(); held_thr = false; }
	else { CHECK(held_coder, "unlock of a held mutex"); guarantee_coder(); held_coder = false; }
	return 0;
}
static int v_cond_wait(pthread_cond_t *c, pthread_mutex_t *m)
{
	/* = unlock; others run; lock (spurious wake-ups and time-outs therefore included) */
	CHECK((m == &T.mutex && c == &T.cond.cond && held_thr) || (m == &C.mutex && c == &C.cond.cond && held_coder), "cond_wait with its own mutex held");
	++waits;
	v_mutex_unlock(m);
	v_mutex_lock(m);
	/* fairness bound: the main thread eventually does something the worker is waiting for */
	if (waits >= 2 && m == &T.mutex) ASSUME(T.state != snap_state || T.in_size != snap_in_size || T.state == THR_FINISH || T.state >= THR_STOP);
	return 0;
}
static int v_cond_signal(pthread_cond_t *c)
{
	if (c == &T.cond.cond) { CHECK(held_thr, "thr->cond signalled with thr->mutex held"); sig_thr = true; }
	else { CHECK(c == &C.cond.cond && held_coder, "coder->cond signalled with coder->mutex held"); sig_coder = true; }
	return 0;
}

void harness_worker(void)
{
	/* arbitrary state in which the main thread may have left things when the worker runs */
	C.block_size = BLOCK; C.stream_flags.check = LZMA_CHECK_CRC32;
	C.thread_error = nd_bool() ? LZMA_OK : LZMA_MEM_ERROR; C.threads_free = NULL;
	C.progress_in = nd_u64() >> 8; C.progress_out = nd_u64() >> 8;
	T.coder = &C; T.allocator = NULL; T.in = inbuf; T.outbuf = &OB.b; T.next = NULL;
	T.progress_in = 0; T.progress_out = 0;
	T.block_encoder = LZMA_NEXT_CODER_INIT;
	T.filters[0].id = LZMA_VLI_UNKNOWN;
	OB.b.allocated = 24; OB.b.pos = 0; OB.b.finished = false; OB.b.uncompressed_size = 0; OB.b.unpadded_size = 0;
	T.state = (worker_state)(nd_u32() % 5);
	T.in_size = nd_size(); ASSUME(T.in_size <= BLOCK);
	if (T.state == THR_IDLE) ASSUME(T.in_size == 0);
	worker_start(&T);
	/* the thread function returned: only ever because of THR_EXIT */
	CHECK(!held_thr && !held_coder, "no mutex held when the thread exits");
	CHECK(pushes <= 1, "at most one hand-over per job");
	if (pushes == 1) WITNESS("a job was completed and handed over");
	if (OB.b.finished) WITNESS("an output buffer was published as finished");
	if (C.thread_error != LZMA_OK && pushes == 1) WITNESS("job ended with an error report");
}
