/*
 * C07 / C08: the output queue shared by the threaded coders (outqueue.c), one operation from
 * an ARBITRARY valid queue state (<= 2 buffers in use, <= 1 cached).
 */
#include "vcommon.h"
#include "outqueue.c"

#define DATA 6
typedef struct { lzma_outbuf b; uint8_t data[DATA]; } slot_t;
static slot_t pool[4]; static bool freed[4]; static unsigned g_frees, g_allocs;
void *lzma_alloc(size_t size, const lzma_allocator *a)
{
	(void)a; ++g_allocs;
	CHECK(size <= sizeof(slot_t), "buffer request fits the pool slot");
	if (nd_bool()) return NULL;
	freed[3] = false;
	return &pool[3].b;
}
void lzma_free(void *p, const lzma_allocator *a)
{
	(void)a;
	for (unsigned k = 0; k < 4; ++k) if (p == (void *)&pool[k].b) { CHECK(!freed[k], "no double free"); freed[k] = true; ++g_frees; }
}
static uint64_t mu(size_t alloc) { return sizeof(lzma_outbuf) + alloc; }

static lzma_outq Q;
static unsigned nq, nc;
static void mk_queue(void)
{
	nq = nd_u32() % 3; nc = nd_u32() % 2;
	for (unsigned k = 0; k < 3; ++k) {
		lzma_outbuf *b = &pool[k].b;
		b->allocated = nd_size() % (DATA + 1);
		b->pos = nd_size(); ASSUME(b->pos <= b->allocated);
		b->finished = nd_bool(); b->finish_ret = (lzma_ret)(nd_u32() % 12);
		b->unpadded_size = nd_u64(); b->uncompressed_size = nd_u64();
		b->worker = nd_bool() ? (void *)&pool[k] : NULL; b->next = NULL;
		for (unsigned i = 0; i < DATA; ++i) pool[k].data[i] = nd_u8();
	}
	Q.head = nq ? &pool[0].b : NULL;
	Q.tail = nq == 2 ? &pool[1].b : (nq == 1 ? &pool[0].b : NULL);
	if (nq == 2) pool[0].b.next = &pool[1].b;
	Q.cache = nc ? &pool[2].b : NULL;
	Q.bufs_in_use = nq; Q.bufs_allocated = nq + nc;
	Q.mem_in_use = (nq >= 1 ? mu(pool[0].b.allocated) : 0) + (nq == 2 ? mu(pool[1].b.allocated) : 0);
	Q.mem_allocated = Q.mem_in_use + (nc ? mu(pool[2].b.allocated) : 0);
	Q.bufs_limit = nd_u32(); ASSUME(Q.bufs_limit >= Q.bufs_allocated && Q.bufs_limit <= 64);
	Q.read_pos = nd_size(); ASSUME(nq ? Q.read_pos <= pool[0].b.pos : Q.read_pos == 0);
}
/* the accounting invariant, recomputed from the linked structure */
static void check_accounting(const char *unused)
{
	(void)unused;
	unsigned inuse = 0, cached = 0; uint64_t m_use = 0, m_all = 0;
	const lzma_outbuf *b = Q.head;
	for (unsigned k = 0; k < 4 && b != NULL; ++k) { ++inuse; m_use += mu(b->allocated); if (b->next == NULL) CHECK(Q.tail == b, "tail is the last queued buffer"); b = b->next; }
	CHECK(b == NULL, "queue is finite");
	b = Q.cache;
	for (unsigned k = 0; k < 4 && b != NULL; ++k) { ++cached; m_all += mu(b->allocated); b = b->next; }
	CHECK((Q.head == NULL) == (Q.tail == NULL), "head and tail agree on emptiness");
	CHECK(Q.bufs_in_use == inuse && Q.mem_in_use == m_use, "bufs_in_use / mem_in_use equal the queued buffers");
	CHECK(Q.bufs_allocated == inuse + cached && Q.mem_allocated == m_use + m_all, "bufs_allocated / mem_allocated equal queued + cached buffers");
}

void harness_outq_read(void)
{
	mk_queue();
	uint8_t out[DATA + 2]; size_t op = 0, osz = nd_size(); ASSUME(osz <= DATA + 2);
	lzma_vli up = 7777, uc = 8888;
	const size_t rp0 = Q.read_pos;
	const lzma_outbuf h0 = nq ? pool[0].b : pool[3].b;
	lzma_ret r = lzma_outq_read(&Q, NULL, out, &op, osz, &up, &uc);
	if (nq == 0) { CHECK(r == LZMA_OK && op == 0, "empty queue: nothing to read"); return; }
	size_t want = h0.pos - rp0; if (want > osz) want = osz;
	CHECK(op == want, "exactly the available bytes of the HEAD buffer (up to the output space) are delivered");
	if (op > 0) {
		size_t q = nd_size(); ASSUME(q < op);
		CHECK(out[q] == pool[0].data[rp0 + q], "bytes leave in order, from the oldest buffer only");
	}
	bool done = h0.finished && rp0 + want == h0.pos;
	if (done) {
		CHECK(r == h0.finish_ret, "the buffer's own status is returned once it is finished and fully read");
		CHECK(up == h0.unpadded_size && uc == h0.uncompressed_size, "sizes of the finished Block are reported");
		CHECK(Q.read_pos == 0, "read position restarts for the next buffer");
		CHECK(Q.head == (nq == 2 ? &pool[1].b : NULL), "the next buffer becomes the head");
		CHECK(Q.cache == &pool[0].b || freed[0], "the emptied buffer is cached (or freed if its size differs from the cache's)");
		WITNESS("buffer finished and recycled");
	} else {
		CHECK(r == LZMA_OK && Q.head == &pool[0].b && Q.read_pos == rp0 + want, "unfinished or not fully read: stays at the head");
		CHECK(up == 7777 && uc == 8888, "sizes are not reported early");
		if (!h0.finished && rp0 == h0.pos) WITNESS("nothing readable yet");
	}
	check_accounting("");
}

void harness_outq_get_buf(void)
{
	mk_queue();
	ASSUME(nc == 1 && Q.bufs_in_use < Q.bufs_limit);   /* preconditions asserted by lzma_outq_get_buf */
	void *worker = (void *)&pool[3];
	lzma_outbuf *b = lzma_outq_get_buf(&Q, worker);
	CHECK(b == &pool[2].b && Q.tail == b && b->next == NULL, "the cached buffer is appended at the tail");
	if (nq == 0) CHECK(Q.head == b, "and becomes the head of an empty queue"); else CHECK(Q.head == &pool[0].b, "older buffers stay in front");
	CHECK(b->worker == worker && !b->finished && b->finish_ret == LZMA_STREAM_END && b->pos == 0 && b->decoder_in_pos == 0 && b->unpadded_size == 0 && b->uncompressed_size == 0, "a recycled buffer carries nothing of its previous use");
	check_accounting("");
	WITNESS("reached");
}

void harness_outq_init(void)
{
	mk_queue();
	uint32_t threads = nd_u32();
	lzma_ret r = lzma_outq_init(&Q, NULL, threads);
	if (threads > LZMA_THREADS_MAX) { CHECK(r == LZMA_OPTIONS_ERROR, "too many threads refused"); return; }
	CHECK(r == LZMA_OK, "init ok");
	CHECK(Q.head == NULL && Q.tail == NULL && Q.bufs_in_use == 0 && Q.mem_in_use == 0, "re-initialised queue holds no pending output");
	CHECK(Q.read_pos == 0, "and no stale read offset: the next Stream's first buffer is read from its beginning");
	CHECK(Q.bufs_limit == 2 * threads && Q.bufs_allocated <= Q.bufs_limit, "buffer limit follows the thread count; surplus cached buffers are freed");
	check_accounting("");
	if (nq == 2) WITNESS("re-init with output pending");
}

void harness_outq_prealloc(void)
{
	mk_queue();
	ASSUME(Q.bufs_in_use < Q.bufs_limit);
	size_t size = nd_size() % (DATA + 1);
	const bool reuse = nc && pool[2].b.allocated == size;
	lzma_ret r = lzma_outq_prealloc_buf(&Q, NULL, size);
	if (reuse) { CHECK(r == LZMA_OK && g_allocs == 0 && Q.cache == &pool[2].b, "a cached buffer of the right size is reused"); WITNESS("reuse"); }
	else if (r == LZMA_OK) { CHECK(Q.cache == &pool[3].b && Q.cache->allocated == size && Q.cache->next == NULL, "new buffer of the requested size cached"); if (nc) CHECK(freed[2], "the old cached buffer of another size is freed"); WITNESS("allocated"); }
	else { CHECK(r == LZMA_MEM_ERROR && Q.cache == NULL, "allocation failure: MEM_ERROR, cache empty"); }
	check_accounting("");
}

static unsigned g_partial; static void *g_partial_w;
static void enable_cb(void *w) { ++g_partial; g_partial_w = w; }
void harness_outq_partial(void)
{
	mk_queue();
	const bool want = nq >= 1 && !pool[0].b.finished && pool[0].b.worker != NULL;
	void *w0 = pool[0].b.worker;
	lzma_outq_enable_partial_output(&Q, &enable_cb);
	CHECK(g_partial == (want ? 1u : 0u), "partial output is enabled for the HEAD buffer's worker only, only while it is unfinished, at most once");
	if (want) { CHECK(g_partial_w == w0 && pool[0].b.worker == NULL, "and the association is cleared"); WITNESS("enabled"); }
}
