# C08 -- threaded compression: ordered, live, safe (see DESIGN.md C07/C08: thread-modular)
S = "src/liblzma/"
FL = ["--object-bits", "10"]
OQ = dict(src="outq.c", defs=["VLOOP_MEM"], unwind=9, units=[S + "common/common.c"], flags=FL, hdefs=["lzma_alloc=vstub_alloc", "lzma_free=vstub_free"],
          stubs=["outbuf pool of typed slots (6 data bytes each); allocator may fail; free tracked per slot"],
          fp_restrict=[])
OBLIGATIONS = [
    Obligation(name="outq_read_step", func="harness_outq_read", functions=["lzma_outq_read", "move_head_to_cache", "lzma_outq_clear_cache"],
        desc="lzma_outq_read from ANY valid queue state (0-2 buffers in use with arbitrary fill/finished/status, 0-1 cached, any read offset) and any output space: delivers exactly the available bytes of the OLDEST buffer in order, returns that buffer's status and Block sizes only when it is finished and fully read, then restarts the read offset at 0 for the next buffer and recycles the old one; counters equal the linked structure",
        bounds_q="<= 2 queued + 1 cached buffers of <= 6 bytes", **OQ),
    Obligation(name="outq_get_buf_step", func="harness_outq_get_buf", functions=["lzma_outq_get_buf"],
        desc="lzma_outq_get_buf: the cached buffer is appended at the tail (allocation order = output order), carries nothing of its previous use, counters consistent", bounds_q="<= 2 queued + 1 cached", **OQ),
    Obligation(name="outq_init_step", func="harness_outq_init", functions=["lzma_outq_init", "move_head_to_cache", "free_one_cached_buffer"],
        desc="lzma_outq_init on a queue in ANY state (re-initialising an encoder/decoder in mid-output): no pending buffers, read offset 0, limit = 2*threads, surplus cache freed, counters consistent", bounds_q="<= 2 queued + 1 cached, all thread counts", **OQ),
    Obligation(name="outq_prealloc_step", func="harness_outq_prealloc", functions=["lzma_outq_prealloc_buf", "lzma_outq_clear_cache"],
        desc="lzma_outq_prealloc_buf: reuses a cached buffer of the same size, otherwise frees the cache and allocates; MEM_ERROR leaves a consistent queue", bounds_q="<= 2 queued + 1 cached", **OQ),
    Obligation(name="outq_partial_step", func="harness_outq_partial", functions=["lzma_outq_enable_partial_output"],
        desc="lzma_outq_enable_partial_output: only the head buffer's worker, only while unfinished, at most once", bounds_q="<= 2 queued + 1 cached", **OQ),
]
OBLIGATIONS += [
    Obligation(name="encoder_worker_rely_guarantee", src="worker.c", func="harness_worker", defs=["VLOOP_MEM"], unwind=5, units=[S + "common/common.c"], flags=FL, timeout_q=280, timeout_t=1800,
        hdefs=["lzma_free=vstub_free", "lzma_next_end=vstub_next_end"],
        fp_restrict=["worker_encode.function_pointer_call.1/enc_code"],
        unwindset=[("worker_start", "^0", 4), ("worker_start", "^3", 8), ("worker_encode", "", 6)],
        functions=["worker_start", "worker_encode", "worker_error"],
        stubs=["pthread primitives = rely/guarantee stubs: lock/cond_wait first let the main thread change the protected fields in any way its own code allows (state RUN->FINISH, any->STOP/EXIT, in_size grows up to the block size, free list popped, another worker's error), unlock checks the worker's own changes, lock discipline and that every change a waiter depends on was signalled in the same critical section",
               "Block encoder / header functions = contract stubs with arbitrary outcomes; fairness: after two waits the main thread makes progress; bound: one job, then the main thread requests EXIT"],
        desc="encoder worker thread (worker_start + worker_encode) for one job from any start state, under every interference of the main thread allowed by the rely: never holds two mutexes, never changes in_size, only moves its state to IDLE and never overrides EXIT, signals thr->cond / coder->cond in the critical section that changes what a waiter reads (no lost wake-up), records only the first error, pushes exactly itself onto the free list at most once per job and ONLY AFTER publishing IDLE, publishes a finished buffer within its allocation, progress totals never decrease, no mutex held or destroyed mutex used at exit",
        bounds_q="one job + exit; block size 8, output buffer 24; <= 2 unproductive waits"),
]
