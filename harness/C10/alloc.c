/*
 * C10: allocation failure at any point.  Every allocation goes through a custom
 * lzma_allocator whose alloc() may fail INDEPENDENTLY at every call (the fault schedule is a
 * vector of nondeterministic booleans = all subsets); a ghost counter tracks outstanding
 * blocks, CBMC's own checks catch NULL dereference, double free and use after free, and
 * --memory-leak-check confirms nothing stays allocated.
 */
#include "vcommon.h"
#include "common.h"

static unsigned g_outstanding, g_allocs, g_fails;
static void *fa_alloc(void *opaque, size_t nmemb, size_t size)
{
	(void)opaque;
	++g_allocs;
	if (nd_bool()) { ++g_fails; return NULL; }
	void *p = malloc(nmemb * size);
	VMALLOC_NONNULL(p);
	++g_outstanding;
	return p;
}
static void fa_free(void *opaque, void *ptr)
{
	(void)opaque;
	if (ptr != NULL) { CHECK(g_outstanding > 0, "free of a block that is outstanding"); --g_outstanding; }
	free(ptr);
}
static const lzma_allocator FA = { .alloc = &fa_alloc, .free = &fa_free, .opaque = NULL };

#ifndef NCHAIN
#define NCHAIN 2
#endif
/* ---- lzma_filters_copy: destination untouched on failure, nothing leaks ---- */
void harness_filters_copy(void)
{
	lzma_options_lzma lz; memset(&lz, 0, sizeof(lz)); lz.dict_size = nd_u32();
	lzma_options_delta dl; dl.type = LZMA_DELTA_TYPE_BYTE; dl.dist = 1 + (nd_u32() & 0xFF);
	lzma_options_bcj bj; bj.start_offset = nd_u32();
	lzma_filter src[LZMA_FILTERS_MAX + 2], dst[LZMA_FILTERS_MAX + 1];
	const unsigned n = NCHAIN;   /* chain length is a per-obligation constant (keeps memcpy sizes concrete) */
	for (unsigned i = 0; i < LZMA_FILTERS_MAX + 2; ++i) {
		if (i < n) {
			unsigned k = nd_u32() % 4;
			if (k == 0) { src[i].id = LZMA_FILTER_LZMA2; src[i].options = &lz; }
			else if (k == 1) { src[i].id = LZMA_FILTER_DELTA; src[i].options = &dl; }
			else if (k == 2) { src[i].id = LZMA_FILTER_X86; src[i].options = nd_bool() ? &bj : NULL; }
			else { src[i].id = 0x7777; src[i].options = nd_bool() ? &bj : NULL; }
		} else { src[i].id = LZMA_VLI_UNKNOWN; src[i].options = NULL; }
	}
	for (unsigned i = 0; i <= LZMA_FILTERS_MAX; ++i) { dst[i].id = 0xABCD0000u + i; dst[i].options = (void *)&dl; }
	lzma_ret r = lzma_filters_copy(src, dst, &FA);
	if (r != LZMA_OK) {
		for (unsigned i = 0; i <= LZMA_FILTERS_MAX; ++i)
			CHECK(dst[i].id == 0xABCD0000u + i && dst[i].options == (void *)&dl, "on failure the destination array is left unchanged");
		CHECK(g_outstanding == 0, "on failure every partial copy was released");
		CHECK((r == LZMA_MEM_ERROR) == (g_fails > 0) || r == LZMA_OPTIONS_ERROR, "MEM_ERROR exactly when an allocation failed (else OPTIONS_ERROR for a bad chain)");
#if NCHAIN >= 2
		if (r == LZMA_MEM_ERROR && g_allocs >= 2) WITNESS("second allocation failed");
#endif
	} else {
		CHECK(g_fails == 0, "success only if no allocation failed");
		for (unsigned i = 0; i < LZMA_FILTERS_MAX; ++i) if (i < n) CHECK(dst[i].id == src[i].id && (dst[i].options == NULL) == (src[i].options == NULL) && (dst[i].options == NULL || dst[i].options != src[i].options), "deep copy");
		lzma_filters_free(dst, &FA);
		CHECK(g_outstanding == 0, "lzma_filters_free releases everything");
#if NCHAIN <= 4
		WITNESS("copy succeeded");
#endif
	}
}

/* ---- Block Header decode: options freed on every error path ---- */
#ifndef HS
#define HS 12
#endif
uint32_t vstub_crc32(const uint8_t *buf, size_t size, uint32_t crc) { (void)buf; (void)size; (void)crc; return nd_u32(); }
void harness_block_header_alloc(void)
{
	uint8_t h[HS]; nd_bytes(h, HS);
	ASSUME(h[0] == HS / 4 - 1);
	lzma_filter f[LZMA_FILTERS_MAX + 1];
	lzma_block b; memset(&b, 0, sizeof(b));
	b.version = 1; b.header_size = HS; b.check = LZMA_CHECK_CRC32; b.filters = f;
	lzma_ret r = lzma_block_header_decode(&b, &FA, h);
	if (r != LZMA_OK) {
		for (unsigned i = 0; i <= LZMA_FILTERS_MAX; ++i) CHECK(f[i].options == NULL || g_outstanding == 0, "no live options pointer after an error");
		CHECK(g_outstanding == 0, "every filter options block is freed on every error path");
		if (r == LZMA_MEM_ERROR) { CHECK(g_fails > 0, "MEM_ERROR only if an allocation failed"); WITNESS("allocation failure path"); }
		if (g_allocs >= 1 && r != LZMA_MEM_ERROR) WITNESS("error after a successful allocation");
	} else {
		CHECK(g_fails == 0, "success only if no allocation failed");
		lzma_filters_free(f, &FA);
		CHECK(g_outstanding == 0, "caller's lzma_filters_free releases everything");
		WITNESS("decoded");
	}
}

#ifndef CODER_A
#define CODER_A 0
#define CODER_B 1
#endif
/* ---- lzma_stream handle: init of several coders, re-init without end, lzma_end ---- */
static lzma_ret init_coder(lzma_stream *strm, unsigned which)
{
	switch (which) {
	case 0: return lzma_stream_decoder(strm, UINT64_MAX, nd_u32() & LZMA_SUPPORTED_FLAGS);
	case 1: return lzma_alone_decoder(strm, UINT64_MAX);
	case 2: return lzma_lzip_decoder(strm, UINT64_MAX, 0);
	case 3: return lzma_auto_decoder(strm, UINT64_MAX, 0);
	default: {
		static lzma_index *dummy_i;
		return lzma_index_decoder(strm, &dummy_i, UINT64_MAX);
	}
	}
}
void harness_handle_reinit(void)
{
	lzma_stream strm = LZMA_STREAM_INIT;
	strm.allocator = &FA;
	const unsigned a = CODER_A, b = CODER_B;   /* per-obligation constants: the pair of coder types */
	lzma_ret r1 = init_coder(&strm, a);
	CHECK(r1 == LZMA_OK || r1 == LZMA_MEM_ERROR, "init returns OK or MEM_ERROR");
	CHECK((r1 == LZMA_MEM_ERROR) == (g_fails > 0), "MEM_ERROR exactly when an allocation failed");
	unsigned fails1 = g_fails;
	/* reuse the same handle for another coder without lzma_end, whatever happened */
	lzma_ret r2 = init_coder(&strm, b);
	CHECK(r2 == LZMA_OK || r2 == LZMA_MEM_ERROR, "re-init returns OK or MEM_ERROR");
	if (g_fails == fails1) CHECK(r2 == LZMA_OK, "re-init succeeds when its allocations succeed");
	lzma_end(&strm);
	CHECK(g_outstanding == 0, "after lzma_end every block obtained from the allocator has been returned");
	CHECK(strm.internal == NULL, "handle cleared");
	if (r1 == LZMA_MEM_ERROR && r2 == LZMA_OK) WITNESS("failed init followed by successful re-init");
	if (r1 == LZMA_OK && r2 == LZMA_OK) WITNESS("two coders in a row on one handle");
}

