/*
 * C10: lz_encoder.c initialisation (window buffer, hash table, son table) and
 * lz_encoder_end under every subset of failing allocations, incl. re-initialisation of an
 * existing coder with other options (buffers are freed and reallocated by lz_encoder_prepare).
 */
#include "vcommon.h"
#include "lz_encoder.c"

static unsigned g_outstanding, g_allocs, g_fails;
static void *fa_alloc(void *opaque, size_t nmemb, size_t size)
{
	(void)opaque; ++g_allocs;
	if (nd_bool()) { ++g_fails; return NULL; }
	void *p = malloc(nmemb * size);
	VMALLOC_NONNULL(p);
	++g_outstanding;
	return p;
}
static void fa_free(void *opaque, void *ptr)
{
	(void)opaque;
	if (ptr != NULL) { CHECK(g_outstanding > 0, "free of an outstanding block"); --g_outstanding; }
	free(ptr);   /* CBMC checks double free / invalid free here */
}
static const lzma_allocator FA = { .alloc = &fa_alloc, .free = &fa_free, .opaque = NULL };

/* the LZ-based encoder behind it (LZMA): only supplies the options */
static lzma_lz_options g_lzopt;
static lzma_ret my_lz_init(lzma_lz_encoder *lz, const lzma_allocator *allocator, lzma_vli id, const void *options, lzma_lz_options *lz_options)
{
	(void)lz; (void)allocator; (void)id; (void)options;
	*lz_options = g_lzopt;
	return LZMA_OK;
}
/* match finder functions referenced by lz_encoder_prepare */
uint32_t lzma_mf_hc3_find(lzma_mf *mf, lzma_match *m) { (void)mf; (void)m; return 0; }
void lzma_mf_hc3_skip(lzma_mf *mf, uint32_t n) { (void)mf; (void)n; }
uint32_t lzma_mf_hc4_find(lzma_mf *mf, lzma_match *m) { (void)mf; (void)m; return 0; }
void lzma_mf_hc4_skip(lzma_mf *mf, uint32_t n) { (void)mf; (void)n; }
uint32_t lzma_mf_bt2_find(lzma_mf *mf, lzma_match *m) { (void)mf; (void)m; return 0; }
void lzma_mf_bt2_skip(lzma_mf *mf, uint32_t n) { (void)mf; (void)n; }
uint32_t lzma_mf_bt3_find(lzma_mf *mf, lzma_match *m) { (void)mf; (void)m; return 0; }
void lzma_mf_bt3_skip(lzma_mf *mf, uint32_t n) { (void)mf; (void)n; }
uint32_t lzma_mf_bt4_find(lzma_mf *mf, lzma_match *m) { (void)mf; (void)m; return 0; }
void lzma_mf_bt4_skip(lzma_mf *mf, uint32_t n) { (void)mf; (void)n; }

static void pick_options(void)
{
	memset(&g_lzopt, 0, sizeof(g_lzopt));
	g_lzopt.before_size = 4096; g_lzopt.after_size = 4097;
	g_lzopt.dict_size = 4096u << (nd_u32() % 3);
	g_lzopt.match_len_max = 273; g_lzopt.nice_len = 32 + (nd_u32() % 200);
	static const lzma_match_finder mfs[5] = { LZMA_MF_HC3, LZMA_MF_HC4, LZMA_MF_BT2, LZMA_MF_BT3, LZMA_MF_BT4 };
	g_lzopt.match_finder = mfs[nd_u32() % 5];
	g_lzopt.depth = nd_u32() & 0xFF;
	g_lzopt.preset_dict = NULL; g_lzopt.preset_dict_size = 0;
}

void harness_lz_encoder_init(void)
{
	lzma_next_coder next = LZMA_NEXT_CODER_INIT;
	lzma_filter_info fi[2];
	fi[0].id = LZMA_FILTER_LZMA2; fi[0].init = NULL; fi[0].options = NULL;
	fi[1].id = LZMA_VLI_UNKNOWN; fi[1].init = NULL; fi[1].options = NULL;
	pick_options();
	lzma_ret r1 = lzma_lz_encoder_init(&next, &FA, fi, &my_lz_init);
	CHECK(r1 == LZMA_OK || r1 == LZMA_MEM_ERROR, "init: OK or MEM_ERROR");
	CHECK((r1 == LZMA_MEM_ERROR) == (g_fails > 0), "MEM_ERROR exactly when an allocation failed");
	if (next.coder != NULL && nd_bool()) {
		/* re-initialise the same coder object with (possibly) different options, as
		 * lzma_next_coder_init does when the same init function is used again */
		pick_options();
		unsigned f0 = g_fails;
		lzma_ret r2 = lzma_lz_encoder_init(&next, &FA, fi, &my_lz_init);
		CHECK(r2 == LZMA_OK || r2 == LZMA_MEM_ERROR, "re-init: OK or MEM_ERROR");
		if (g_fails == f0) CHECK(r2 == LZMA_OK, "re-init succeeds when its allocations succeed");
		if (r2 == LZMA_OK && r1 == LZMA_MEM_ERROR) WITNESS("successful re-init after a failed init");
	}
	/* whatever happened: the owner ends the coder (lzma_end -> lzma_next_end -> lz_encoder_end) */
	if (next.coder != NULL)
		lz_encoder_end(next.coder, &FA);
	CHECK(g_outstanding == 0, "after the coder is ended every block has been returned exactly once");
	if (r1 == LZMA_MEM_ERROR && g_allocs >= 4) WITNESS("the last of the table allocations failed");
	if (r1 == LZMA_OK) WITNESS("init succeeded");
}
