/*
 * C10: lzma_index operations under failing allocations.  index.c is #included; the allocator
 * serves statically typed pool objects (see harness/C13/idx_model.c for why: CBMC keeps typed
 * objects field-sensitive) and may fail independently at every call; each pool slot has a
 * ghost in-use flag (double free, leak and use of a freed slot are asserted against).
 */
#include "vcommon.h"
#include "index.c"

#ifndef DUP_BLOCKS
#define DUP_BLOCKS 0
#endif
#define POOLN 8
typedef struct { index_group g; index_record room[4]; } pool_group_t;
static lzma_index pool_index[POOLN]; static bool use_index[POOLN];
static index_stream pool_stream[POOLN]; static bool use_stream[POOLN];
static pool_group_t pool_group[POOLN]; static bool use_group[POOLN];
static unsigned g_outstanding, g_fails, g_allocs;
static bool g_may_fail;   /* failures are switched on only for the operation under test, so that
                            * the index it starts from has a deterministic shape */

/* Slot choice is a function of the NUMBER of requests of that kind so far (failed ones
 * included), never of which earlier requests failed: the address returned by the n-th
 * request is therefore the same on every path, which keeps CBMC's pointer values concrete. */
static unsigned n_index, n_stream, n_group;
void *lzma_alloc(size_t size, const lzma_allocator *allocator)
{
	(void)allocator;
	++g_allocs;
	void *p;
	if (size == sizeof(lzma_index)) { CHECK(n_index < POOLN, "index pool large enough"); use_index[n_index] = true; p = &pool_index[n_index++]; }
	else if (size == sizeof(index_stream)) { CHECK(n_stream < POOLN, "stream pool large enough"); use_stream[n_stream] = true; p = &pool_stream[n_stream++]; }
	else { CHECK(size >= sizeof(index_group) && size <= sizeof(pool_group_t), "group request fits the pool slot"); CHECK(n_group < POOLN, "group pool large enough"); use_group[n_group] = true; p = &pool_group[n_group++].g; }
	if (g_may_fail && nd_bool()) {
		++g_fails;
		/* the slot is burnt, not handed out */
		if (size == sizeof(lzma_index)) use_index[n_index - 1] = false;
		else if (size == sizeof(index_stream)) use_stream[n_stream - 1] = false;
		else use_group[n_group - 1] = false;
		return NULL;
	}
	++g_outstanding;
	return p;
}
void lzma_free(void *ptr, const lzma_allocator *allocator)
{
	(void)allocator;
	if (ptr == NULL) return;
	bool found = false;
	for (unsigned k = 0; k < POOLN; ++k) {
		if (ptr == (void *)&pool_index[k]) { CHECK(use_index[k], "no double free (lzma_index)"); use_index[k] = false; found = true; }
		if (ptr == (void *)&pool_stream[k]) { CHECK(use_stream[k], "no double free (index_stream)"); use_stream[k] = false; found = true; }
		if (ptr == (void *)&pool_group[k].g) { CHECK(use_group[k], "no double free (index_group)"); use_group[k] = false; found = true; }
	}
	CHECK(found, "free() only of pointers obtained from the allocator");
	--g_outstanding;
}
static const lzma_allocator FA = { 0 };

/* ---- lzma_index operations under failing allocations ---- */
static lzma_index *build_two_streams(void)
{
	g_may_fail = false;
	lzma_index *i = lzma_index_init(&FA);
#if DUP_BLOCKS
	lzma_index_prealloc(i, 1);
	(void)lzma_index_append(i, &FA, 7, 100);
#endif
	lzma_index *b = lzma_index_init(&FA);
#if DUP_BLOCKS
	lzma_index_prealloc(b, 1);
	(void)lzma_index_append(b, &FA, 9, 50);
#endif
	(void)lzma_index_cat(i, b, &FA);
	return i;
}

void harness_index_dup_alloc(void)
{
	lzma_index *i = build_two_streams();
	unsigned out0 = g_outstanding;
	g_may_fail = true;
	lzma_index *d = lzma_index_dup(i, &FA);
	g_may_fail = false;
	if (d == NULL) {
		CHECK(g_fails > 0, "dup returns NULL only if an allocation failed");
		CHECK(g_outstanding == out0, "a failed dup releases everything it had built (every Stream and record group)");
		WITNESS("dup of a two-Stream index failed");
	} else {
		CHECK(g_fails == 0, "dup succeeds only if its allocations succeeded");
		CHECK(lzma_index_stream_count(d) == 2 && lzma_index_block_count(d) == 2 * DUP_BLOCKS, "dup result");
		lzma_index_end(d, &FA);
		CHECK(g_outstanding == out0, "ending the duplicate releases exactly what dup allocated");
		WITNESS("dup succeeded");
	}
	CHECK(lzma_index_stream_count(i) == 2 && lzma_index_block_count(i) == 2 * DUP_BLOCKS, "source unchanged");
	lzma_index_end(i, &FA);
	CHECK(g_outstanding == 0, "nothing left after lzma_index_end");
}

void harness_index_append_alloc(void)
{
	g_may_fail = true;
	lzma_index *i = lzma_index_init(&FA);
	if (i == NULL) { CHECK(g_fails > 0 && g_outstanding == 0, "failed init leaves nothing allocated"); WITNESS("init failed"); return; }
	lzma_index_prealloc(i, 1);
	lzma_ret r = lzma_index_append(i, &FA, 7, 100);
	CHECK(r == LZMA_OK || r == LZMA_MEM_ERROR, "append: OK or MEM_ERROR");
	if (r != LZMA_OK) { CHECK(lzma_index_block_count(i) == 0 && lzma_index_uncompressed_size(i) == 0 && lzma_index_total_size(i) == 0, "failed append leaves the index unchanged"); WITNESS("append failed"); }
	else CHECK(lzma_index_block_count(i) == 1, "appended");
	g_may_fail = false;
	lzma_index_end(i, &FA);
	CHECK(g_outstanding == 0, "nothing left after lzma_index_end");
}

void harness_index_cat_alloc(void)
{
	g_may_fail = false;
	lzma_index *i = lzma_index_init(&FA);
	lzma_index_prealloc(i, 2);          /* group with a spare slot: cat reallocates it */
	(void)lzma_index_append(i, &FA, 7, 100);
	lzma_index *b = lzma_index_init(&FA);
	lzma_index_prealloc(b, 1);
	(void)lzma_index_append(b, &FA, 9, 50);
	g_may_fail = true;
	lzma_ret rc = lzma_index_cat(i, b, &FA);
	g_may_fail = false;
	CHECK(rc == LZMA_OK || rc == LZMA_MEM_ERROR, "cat: OK or MEM_ERROR");
	if (rc != LZMA_OK) {
		CHECK(g_fails > 0, "MEM_ERROR only if an allocation failed");
		CHECK(lzma_index_block_count(i) == 1 && lzma_index_block_count(b) == 1 && lzma_index_stream_count(i) == 1, "failed cat leaves both operands unchanged");
		lzma_index_end(b, &FA);
		WITNESS("cat failed");
	} else {
		CHECK(lzma_index_stream_count(i) == 2 && lzma_index_block_count(i) == 2, "cat result");
		WITNESS("cat succeeded");
	}
	lzma_index_end(i, &FA);
	CHECK(g_outstanding == 0, "nothing left after lzma_index_end");
}
