/*
 * xzspec.h -- independent, specification-derived reference code for the .xz container
 * (doc/xz-file-format.txt 1.2.x), used as the oracle in C02/C03/C05/C13/C16 obligations.
 * Shares no code with liblzma.  Everything is written for clarity, not speed.
 */
#ifndef XZSPEC_H
#define XZSPEC_H
#include <stdint.h>
#include <stddef.h>
#include <stdbool.h>

/* CRC32 (IEEE 802.3, reflected, init/xorout 0xFFFFFFFF), one bit at a time. */
static uint32_t spec_crc32(const uint8_t *p, size_t n)
{
	uint32_t c = 0xFFFFFFFFu;
	for (size_t i = 0; i < n; ++i) {
		c ^= p[i];
		for (int k = 0; k < 8; ++k)
			c = (c >> 1) ^ ((c & 1) ? 0xEDB88320u : 0);
	}
	return ~c;
}

/* CRC64 (ECMA-182, reflected). */
static uint64_t spec_crc64(const uint8_t *p, size_t n)
{
	uint64_t c = ~(uint64_t)0;
	for (size_t i = 0; i < n; ++i) {
		c ^= p[i];
		for (int k = 0; k < 8; ++k)
			c = (c >> 1) ^ ((c & 1) ? 0xC96C5795D7870F42ull : 0);
	}
	return ~c;
}

/* The CRC32 used for the Block Header / Index can be abstracted by the harness (see the
 * obligations' stub lists): both the real code and this parser then see the same value. */
#ifndef SPEC_CRC32
#define SPEC_CRC32(p, n) spec_crc32((p), (n))
#endif

static uint32_t spec_le32(const uint8_t *p)
{
	return (uint32_t)p[0] | (uint32_t)p[1] << 8 | (uint32_t)p[2] << 16 | (uint32_t)p[3] << 24;
}

#define SPEC_VLI_MAX (UINT64_MAX / 2)

/* Section 1.2: variable-length integer.  Returns the number of bytes used (1..9) or 0 if
 * the bytes at p[0..avail) do not start with a valid, minimally encoded integer. */
static size_t spec_vli(const uint8_t *p, size_t avail, uint64_t *val)
{
	uint64_t v = 0;
	for (size_t i = 0; i < 9; ++i) {
		if (i >= avail)
			return 0;                       /* truncated */
		v |= (uint64_t)(p[i] & 0x7F) << (7 * i);
		if (!(p[i] & 0x80)) {
			if (p[i] == 0 && i > 0)
				return 0;               /* not minimal */
			*val = v;
			return i + 1;
		}
	}
	return 0;                                       /* more than 9 bytes */
}

/* number of bytes of the minimal encoding */
static size_t spec_vli_size(uint64_t v)
{
	/* 7 payload bits per byte (loop-free on purpose: cheap for the solver) */
	if (v < (1ull << 7)) return 1;
	if (v < (1ull << 14)) return 2;
	if (v < (1ull << 21)) return 3;
	if (v < (1ull << 28)) return 4;
	if (v < (1ull << 35)) return 5;
	if (v < (1ull << 42)) return 6;
	if (v < (1ull << 49)) return 7;
	if (v < (1ull << 56)) return 8;
	return 9;
}

static size_t spec_check_size(unsigned id)
{
	/* Section 2.1.1.2 */
	if (id == 0) return 0;
	if (id <= 3) return 4;
	if (id <= 6) return 8;
	if (id <= 9) return 16;
	if (id <= 12) return 32;
	return 64;
}

/* Section 2.1.1: Stream Header.  0 = valid, 1 = not an .xz (magic), 2 = corrupt (CRC),
 * 3 = unsupported flags. */
static int spec_stream_header(const uint8_t h[12], unsigned *check)
{
	static const uint8_t magic[6] = { 0xFD, '7', 'z', 'X', 'Z', 0x00 };
	for (int i = 0; i < 6; ++i)
		if (h[i] != magic[i])
			return 1;
	if (SPEC_CRC32(h + 6, 2) != spec_le32(h + 8))
		return 2;
	if (h[6] != 0 || (h[7] & 0xF0))
		return 3;
	*check = h[7] & 0x0F;
	return 0;
}

/* Section 2.1.2: Stream Footer. */
static int spec_stream_footer(const uint8_t f[12], unsigned *check, uint64_t *backward_size)
{
	if (f[10] != 'Y' || f[11] != 'Z')
		return 1;
	if (SPEC_CRC32(f + 4, 6) != spec_le32(f))
		return 2;
	if (f[8] != 0 || (f[9] & 0xF0))
		return 3;
	*check = f[9] & 0x0F;
	*backward_size = ((uint64_t)spec_le32(f + 4) + 1) * 4;
	return 0;
}

/* Filter Flags (3.1.5) with the filter-specific properties of section 5.3 */
typedef struct {
	uint64_t id;
	unsigned props_size;
	uint32_t value;   /* LZMA2: dictionary size; delta: distance; BCJ: start offset */
} spec_filter;

#define SPEC_ID_DELTA 0x03
#define SPEC_ID_LZMA2 0x21
static bool spec_is_bcj(uint64_t id) { return id >= 0x04 && id <= 0x0B; }

/* 5.3.1: LZMA2 dictionary size from the properties byte */
static bool spec_lzma2_dict(uint8_t b, uint32_t *dict)
{
	if (b > 40)
		return false;
	if (b == 40) { *dict = 0xFFFFFFFFu; return true; }
	*dict = (uint32_t)(2 | (b & 1)) << (b / 2 + 11);
	return true;
}

/* returns bytes used, or 0 when invalid/unsupported */
static size_t spec_filter_flags(const uint8_t *p, size_t avail, spec_filter *f)
{
	uint64_t id, psize;
	size_t a = spec_vli(p, avail, &id);
	if (!a) return 0;
	size_t b = spec_vli(p + a, avail - a, &psize);
	if (!b) return 0;
	if (psize > avail - a - b) return 0;
	const uint8_t *props = p + a + b;
	f->id = id; f->props_size = (unsigned)psize; f->value = 0;
	if (id == SPEC_ID_LZMA2) {
		if (psize != 1 || !spec_lzma2_dict(props[0], &f->value)) return 0;
	} else if (id == SPEC_ID_DELTA) {
		if (psize != 1) return 0;
		f->value = (uint32_t)props[0] + 1;
	} else if (spec_is_bcj(id)) {
		if (psize == 4) f->value = spec_le32(props);
		else if (psize != 0) return 0;
	} else {
		return 0;   /* unknown / reserved / LZMA1 is not a .xz filter */
	}
	return a + b + (size_t)psize;
}

/* Section 3.1: Block Header of total size hs (bytes), Check size from the Stream Flags. */
typedef struct {
	bool has_comp, has_uncomp;
	uint64_t comp, uncomp;
	unsigned nfilters;
	spec_filter f[4];
} spec_block_header;

static bool spec_block_header_parse(const uint8_t *h, size_t hs, unsigned check_id,
		spec_block_header *o)
{
	if (hs < 8 || hs > 1024 || (hs & 3) || (size_t)(h[0] + 1) * 4 != hs)
		return false;
	if (SPEC_CRC32(h, hs - 4) != spec_le32(h + hs - 4))
		return false;
	const size_t end = hs - 4;
	if (h[1] & 0x3C)
		return false;                           /* reserved flag bits */
	o->nfilters = (h[1] & 3) + 1;
	o->has_comp = (h[1] & 0x40) != 0;
	o->has_uncomp = (h[1] & 0x80) != 0;
	size_t pos = 2;
	if (o->has_comp) {
		size_t n = spec_vli(h + pos, end - pos, &o->comp);
		if (!n) return false;
		pos += n;
		/* 3.1.3 / 4.3: must be non-zero, and Unpadded Size (header + compressed +
		 * check) must be a valid VLI that, rounded up to four, is too */
		if (o->comp == 0) return false;
		uint64_t limit = (SPEC_VLI_MAX & ~(uint64_t)3) - hs - spec_check_size(check_id);
		if (o->comp > limit) return false;
	}
	if (o->has_uncomp) {
		size_t n = spec_vli(h + pos, end - pos, &o->uncomp);
		if (!n) return false;
		pos += n;
	}
	for (unsigned i = 0; i < o->nfilters; ++i) {
		size_t n = spec_filter_flags(h + pos, end - pos, &o->f[i]);
		if (!n) return false;
		pos += n;
	}
	for (; pos < end; ++pos)
		if (h[pos] != 0)
			return false;                   /* Header Padding must be zeros */
	return true;
}

#endif
