#!/bin/sh
# Native demonstration through the public API (raw LZMA2 encoder/decoder), compiled from the
# sources in ${VERIF_REPO:-/repo}.  Exit 1 = the finding reproduces (input consumed / output
# delivered at the DATA_ERROR differ between one-shot and byte-wise decoding), 0 = it does not.
REPO=${VERIF_REPO:-/repo}
W=$(mktemp -d /var/tmp/c06demo.XXXXXX); trap 'rm -rf "$W"' EXIT
S=$REPO/src/liblzma
DEFS=$(python3 -c "
import sys; sys.path.insert(0,'/verif/lib'); import vlib
print(' '.join(f for f in vlib.cflags('liblzma',[]) if f.startswith('-D') or f.startswith('-I')))")
SRCS=$(ls $S/common/*.c $S/lz/*.c $S/lzma/*.c $S/rangecoder/*.c $S/delta/*.c $S/simple/*.c $S/check/check.c \
  $S/check/crc32_fast.c $S/check/crc64_fast.c $S/check/sha256.c $REPO/src/common/tuklib_physmem.c $REPO/src/common/tuklib_cpucores.c | grep -v "tablegen\|_mt\.c\|outqueue\|hardware_cputhreads\|fastpos_tablegen")
gcc -std=gnu99 -O1 -w $DEFS $(dirname "$0")/demo.c $SRCS -o $W/demo -lpthread 2>$W/cc.log || { tail -20 $W/cc.log; exit 2; }
$W/demo
