#include <lzma.h>
#include <stdio.h>
#include <string.h>
#include <stdlib.h>
static int run(const uint8_t *in, size_t n, size_t step, lzma_filter *f, uint64_t *tin, uint64_t *tout){
  lzma_stream s = LZMA_STREAM_INIT; lzma_ret r = lzma_raw_decoder(&s, f); if (r) return 100+r;
  static uint8_t out[1<<16]; s.next_out = out; s.avail_out = sizeof out;
  size_t off = 0; s.next_in = in;
  for (;;) {
    size_t k = n - off < step ? n - off : step; s.avail_in += k; off += k;
    r = lzma_code(&s, off == n ? LZMA_FINISH : LZMA_RUN);
    if (r != LZMA_OK) break;
    if (off == n && s.avail_in == 0) { r = lzma_code(&s, LZMA_FINISH); break; }
  }
  *tin = s.total_in; *tout = s.total_out; lzma_end(&s); return r;
}
int main(void){
  lzma_options_lzma o; lzma_lzma_preset(&o, 6);
  lzma_filter f[2] = {{LZMA_FILTER_LZMA2, &o}, {LZMA_VLI_UNKNOWN, NULL}};
  uint8_t src[3000]; unsigned x = 12345; for (int i = 0; i < 3000; i++){ x = x*1103515245+12345; src[i] = "abcdefgh"[(x>>16)&7]; }
  uint8_t enc[8192]; size_t ep = 0;
  if (lzma_raw_buffer_encode(f, NULL, src, sizeof src, enc, &ep, sizeof enc)) return 2;
  printf("encoded %zu bytes, control=%02x csize=%u\n", ep, enc[0], (enc[3]<<8|enc[4])+1);
  uint64_t a,b,c,d; int r1, r2;
  r1 = run(enc, ep, ep, f, &a, &b); r2 = run(enc, ep, 1, f, &c, &d);
  printf("valid: oneshot ret=%d in=%lu out=%lu | bytewise ret=%d in=%lu out=%lu\n", r1,a,b,r2,c,d);
  /* make the compressed-size field 100 too small */
  unsigned cs = (enc[3]<<8|enc[4]) - 100; enc[3] = cs>>8; enc[4] = cs&255;
  r1 = run(enc, ep, ep, f, &a, &b); r2 = run(enc, ep, 1, f, &c, &d);
  printf("csize-100: oneshot ret=%d in=%lu out=%lu | bytewise ret=%d in=%lu out=%lu\n", r1,a,b,r2,c,d);
  return !(r1 == r2 && a == c);
}
