#!/usr/bin/env python3
"""Regenerate MANIFEST.json from lib/manifest_data.py (single source for levels/notes)."""
import json, os, sys
HERE = os.path.dirname(os.path.dirname(os.path.abspath(__file__)))
sys.path.insert(0, os.path.join(HERE, "lib"))
import manifest_data as M

checks = []
for pid in sorted(M.CLAIMED):
    c = M.CLAIMED[pid]
    checks.append(dict(
        property_id=pid,
        quick_cmd="bin/check %s --tier quick" % pid,
        thorough_cmd="bin/check %s --tier thorough" % pid,
        evidence_file="/verif/evidence/%s.json" % pid,
        engine="cbmc",
        level_claimed=dict(category="model_checking", text=c["text"], design_ref="DESIGN.md section 2, " + pid),
        level_note=c["note"],
        technique=c.get("technique", "bounded symbolic execution of the real C translation units with CBMC (SAT), property as assertion over nondeterministic inputs"),
    ))
man = dict(
    version=1,
    setup_cmd="true",
    hooks=dict(guard="TUKAANI_PROJECT_XZ_VERIF",
               enable="harness translation units are compiled by goto-cc with -DTUKAANI_PROJECT_XZ_VERIF (no source hooks are currently needed: harnesses #include the real .c files)",
               baseline_off_cmd="cd /repo && cmake -G Ninja -B _build -DCMAKE_BUILD_TYPE=RelWithDebInfo >/dev/null && cmake --build _build >/dev/null && ctest --test-dir _build -j8 --timeout 900",
               source_commits=M.HOOK_COMMITS, add_only=True),
    engines=[dict(name="cbmc", path="/verif/bin/check",
                  serves_properties=sorted(M.CLAIMED),
                  kind_free_text="CBMC 6.11 bounded model checking of goto binaries built by goto-cc from /repo's current working tree; obligations in harness/<ID>/obl.py; lib/vlib.py drives build, solve, witness (vacuity) check, trace extraction and native ASan/UBSan replay")],
    checks=checks,
    notes=M.NOTES,
    not_applicable=[dict(property_id=k, reason=v) for k, v in sorted(M.NOT_APPLICABLE.items())],
)
json.dump(man, open(os.path.join(HERE, "MANIFEST.json"), "w"), indent=1)
print("wrote MANIFEST.json with", len(checks), "checks,", len(man["not_applicable"]), "not applicable")
