HOOK_COMMITS = []
NOTES = ("All checks are bounded solver verdicts (CBMC) over the real translation units of /repo; "
         "each evidence file lists per obligation the functions encoded, bounds, stubs, back end, "
         "solver statistics and what lies outside the claim. A timeout/out-of-memory obligation is "
         "reported INCONCLUSIVE and never counted as discharged.")
CLAIMED = {}
CLAIMED["C15"] = dict(
   text="Every BCJ filter kernel (x86, ARM, ARM-Thumb, ARM64, PowerPC, IA-64, SPARC, RISC-V) and the delta "
        "kernels are symbolically executed from /repo's sources: decode(encode(x))==x, equal processed "
        "counts, no write outside the buffer, and byte-for-byte equality with independent reference "
        "transforms for every buffer up to the stated length at every aligned 32-bit position; the "
        "streaming wrapper simple_code() with symbolic input/output cut points equals the one-shot "
        "filter; delta from an arbitrary history state. Bounded model checking is the right level: the "
        "kernels are position-local bit-vector code, so small buffers cover every instruction form.",
   note="Bounds: buffers of 7..16 bytes (quick) / 10..32 (thorough); streaming: 2-3 sliced calls. "
        "RISC-V has no independent reference (round trip + streaming only). Reference transforms in "
        "harness/C15/refs.h are the trusted oracle. Loop models of memcpy/memmove are used in the "
        "streaming obligations.")
CLAIMED["C11"] = dict(
   text="The real lzma_code()/lzma_strm_init()/lzma_end() are executed symbolically over a history of k calls "
        "with symbolic action, buffer pointers, avail_in/avail_out, reserved-field mutation and optional "
        "re-initialisation, against a coder stub that may consume/produce anything within its buffers and "
        "return any status; a reference monitor of the documented protocol predicts every return code and "
        "every next_in/next_out/avail/total update. All call sequences up to the bound are covered, which is "
        "exactly the property's quantifier.",
   note="Bound: k = 4 calls (quick) / 7 (thorough), buffers <= 8 bytes. The coder behind the handle is a "
        "contract stub; per-coder supported_actions tables of the public init functions are not enumerated here.")
CLAIMED["C03"] = dict(
   text="Differential check of the real container-header decoders against specification-derived acceptors "
        "(spec/xzspec.h) over ALL byte strings of the stated sizes: Stream Header, Stream Footer, Block Header "
        "(with real Filter Flags and properties decoders), stream-flags comparison and filter-chain validation: "
        "accept exactly when the spec says valid, same decoded values, documented error class.",
   note="Bounds: Block Header sizes 8 and 12 bytes (quick), up to 24 (thorough). CRC32 is abstracted to an "
        "arbitrary value in the Block Header/Footer obligations (real CRC32 vs definition: Stream Header "
        "obligation and C14). The LZMA2 chunk layer (all inputs <= 8 quick / 10 thorough bytes, vs an independent "
        "chunk-grammar parser), the Block decoder body, the Index verification (index_hash), the Index decoder and the MicroLZMA "
        "wrapper are decided with the LZMA1 payload decoder / filter chain / hash functions as contract stubs "
        "(listed per obligation in the evidence). OUTSIDE the claim: lzma_decode() (LZMA payload bits) - measured "
        "not to reach a verdict under CBMC (also with --max-field-sensitivity-array-size); full stream_decode "
        "sequencing across several Blocks.")
NOT_APPLICABLE = {
 "C20": "xzgrep/xzdiff/xzless are POSIX shell scripts run by /bin/sh, sed, grep, diff: no symbolic executor for sh/sed exists in this image and CBMC/z3/cvc5 cannot execute them from source or IR; an SMT model of sed and shell quoting would verify the model, not the scripts.",
}
# properties not yet given a check are listed as not applicable *for now* with that reason
PENDING = ["C01","C02","C03","C04","C05","C06","C07","C08","C09","C10","C11","C12","C13","C14","C16","C17","C18","C19"]
for p in PENDING:
    if p not in CLAIMED:
        NOT_APPLICABLE[p] = "no check registered yet in this revision (work in progress; see DESIGN.md for the planned obligations)"
CLAIMED["C14"] = dict(
   text="CRC32/CRC64: every table entry vs the bit-at-a-time polynomial definition, the table byte step vs eight "
        "bit steps for all (register, byte), GF(2)-linearity of tables, the real generic functions vs the "
        "slice-by-8/slice-by-4 formula over the same tables for concrete (alignment, length) cases, end-to-end "
        "vs the bitwise definition with chaining for short buffers, and memory safety for every length/alignment "
        "with an exact-size buffer. SHA-256: buffering/padding as two inductive steps from an arbitrary state "
        "with the compression function replaced by a block logger; check-interface dispatch and sizes. The "
        "conjunction implies the property given the stated linear-algebra composition lemma (DESIGN.md C14).",
   note="NOT covered (measured: no solver verdict): full-width generic==bitwise equivalence as one query, the "
        "SHA-256 compression function, CLMUL/ARM64/LoongArch/assembly CRC variants (so 'all build variants agree' "
        "is not decided). Structure cases are a sample of (alignment, length) pairs, not all.")
PENDING.remove("C14") if "C14" in PENDING else None
NOT_APPLICABLE.pop("C14", None)
CLAIMED["C13"] = dict(
   text="Real index.c against a list-of-records model (128-bit arithmetic): each single operation (append, "
        "stream_padding, stream_flags, cat) from a fresh index with ALL sizes symbolic over the 63-bit VLI range "
        "- accessors, full Block/Stream iteration, locate(t), and 'fails exactly when a format limit is exceeded' "
        "- plus focused multi-operation obligations (dup of a two-Stream index; append after cat with symbolic "
        "locate target).",
   note="Longer symbolic histories are OUTSIDE the claim: measured two appends = 80 M clauses, three operations "
        "> 15 GB (every limit check is a symbolic branch whose join makes the AVL tree pointers symbolic). "
        "Allocator = typed object pools (no exact-size heap checking here). Not covered yet: index "
        "encoder/decoder round trip, file-info decoder seek behaviour, xz --list.")
NOT_APPLICABLE.pop("C13", None)
CLAIMED["C17"] = dict(
   text="The real src/xz/file_io.c is executed symbolically with every system call replaced by a nondeterministic stub "
        "(arbitrary results, errno, short counts) over a ghost file system, a signal possible before any call. The "
        "safety conditions are asserted AT the unlink(source) call and a crash-point invariant at EVERY system call, "
        "for all option combinations. This is exactly the property's quantifier (fault sequences x crash points).",
   note="Bounds: 1 io_write call (quick) / 3 (thorough), <= 2 try-again outcomes per run (fairness), 1032-byte I/O buffer "
        "in quick. The coder above file_io.c is abstract (its success bit is an input); coder.c/main.c control flow, "
        "exit statuses and the kernel's fsync semantics are outside. args.c's option invariants are assumed.")
CLAIMED["C18"] = dict(
   text="Sink logic of the real file_io.c under the same stubbed system: sparse-file extents (every write lands where its "
        "bytes belong, only all-zero data becomes a hole, trailing hole materialised, exact final offset), stdout "
        "regular/pipe/append handling and flag restoration, --no-sparse, and 'no silent truncation' of the input.",
   note="Bounds: 2 io_write calls (quick) / 3 (thorough), buffer 1032 bytes, buffers all-zero or with one non-zero byte at "
        "a symbolic position. OUTSIDE: agreement of decoded bytes with liblzma (the library), coder.c/xzdec.c control "
        "flow and exit status, option parsing, thread counts.")
CLAIMED["C19"] = dict(
   text="file_io.c rules decided over arbitrary struct stat values and system-call results: which sources are accepted "
        "(regular, no setuid/setgid/sticky, single link, O_NOFOLLOW), target creation (O_CREAT|O_EXCL, 0600, unlink only "
        "with --force), attribute copying (mode never broader, no special bits, owner/group/timestamps).",
   note="Suffix/naming obligations (suffix.c) and the exit-status lattice are listed in the evidence when present; "
        "args.c option parsing is outside.")
for _p in ("C17", "C18", "C19"):
    NOT_APPLICABLE.pop(_p, None)
CLAIMED["C02"] = dict(
   text="Encoder-side container fields are executed symbolically and parsed by independent, specification-derived parsers "
        "(spec/xzspec.h): Stream Header/Footer for every flags value, VLI encoding for all 63-bit values (single-call and "
        "resumable), Block Header for every lzma_block the size function accepts (1-2 filters, symbolic options), the "
        "LZMA2 dictionary-size byte for all 2^32 sizes, LZMA1 properties, Index encoding incl. output slicing, and the "
        "bound functions' arithmetic for all 64-bit sizes.",
   note="Also decided: the Block encoder body (payload, zero padding to four, Check value, true sizes handed back) with the "
        "filter chain and Check function as contract stubs. "
        "OUTSIDE: validity of the LZMA/LZMA2 payload bits and 'an independent decoder recovers the input' (needs the LZMA "
        "symbol coder: measured no verdict); chains of 3-4 filters; headers above 32 bytes; sufficiency of the bound for "
        "real compressed data.")
NOT_APPLICABLE.pop("C02", None)
CLAIMED["C05"] = dict(
   text="Container-level detection of damage, decided on the real stream_decode state machine from arbitrary states and on "
        "the real header decoders: Stream Footer accepted only if valid per spec AND Backward Size == Index size AND flags "
        "== header flags (all 2^96 footers); Stream Padding only in multiples of four, identical under any split; header "
        "split equivalence; Block -> Index record; every single-bit flip of accepted Stream Headers / Block Headers rejected "
        "with the real CRC32; a Stream never ends inside a Block.",
   note="In the stream_decode obligations Index hash, Block decoder and LZMA payload are contract stubs; their own obligations "
        "are block_body_rules (declared sizes / Block Padding / Check field, truncation), index_hash_exact_* (every byte "
        "string as Index vs the one valid encoding; quick: one Block, one call; sliced and two-Record variants are "
        "thorough-tier) and C03's lzma2_chunk_layer. "
        "OUTSIDE: corruption inside the LZMA bit stream (detected through the Check, which needs the payload decoder); "
        "multi-byte overwrites (CRC collisions are true counterexamples); .lz/.lzma truncation is under C16.")
NOT_APPLICABLE.pop("C05", None)
CLAIMED["C16"] = dict(
   text="The real .lz, .lzma and auto-detection state machines (lzip_decode, alone_decode, auto_decode) are executed from "
        "initial and arbitrary running states over all header/footer byte strings with symbolic cut points and flags, "
        "against the format rules: lzip magic/version/dictionary-size code formula, member/data size and CRC comparisons, "
        "trailing-data and concatenation rules, .lzma header plausibility test and option pass-through, detection by first "
        "byte, '.lzma followed by anything is an error when concatenated'.",
   note="LZMA payload decoder = contract stub, so 'return the defined content' and the known-size/end-marker rules inside "
        "lzma_decode are OUTSIDE (a slicing defect there, D1 in DESIGN.md, was observed by hand and is not reachable by CBMC). "
        "Stream Padding / concatenated .xz rules are under C05. xz/xzdec/lzmainfo CLI behaviour is outside.")
NOT_APPLICABLE.pop("C16", None)
CLAIMED["C10"] = dict(
   text="Every allocation in the scenario may fail independently (nondeterministic allocator = all subsets of failing "
        "allocations, not just the k-th): lzma_filters_copy, lzma_block_header_decode, decoder handles re-initialised "
        "with another coder without lzma_end, lzma_index init/append/cat/dup, and lz_encoder init/re-init/end. Asserted: "
        "MEM_ERROR/NULL exactly when an allocation failed, caller-owned objects unchanged on failure, no double free / use "
        "after free / NULL dereference (CBMC pointer checks), and a ghost count plus --memory-leak-check show every block "
        "is returned.",
   note="Bounds: fixed short scenarios (see evidence). Index scenarios use typed object pools instead of exact-size heap "
        "blocks. NOT covered: encoder handles (LZMA encoder init builds price tables), threaded coders' init, "
        "lzma_str_to_filters, failures during lzma_code steady state, filter-chain update.")
NOT_APPLICABLE.pop("C10", None)
CLAIMED["C06"] = dict(
   text="Slicing independence decided per coder on the real code with SYMBOLIC cut points (not sampled slicings): "
        "simple_code() BCJ wrapper (sliced == one-shot), filter kernels (two calls == one), stream_decode header/padding, "
        ".lz/.lzma/auto decoders, VLI encode/decode resumable vs single-call, Index encoder; and the encoder-side guarantee "
        "that in RUN mode the match finder only sees positions with a full look-ahead buffered (lz_encoder window), which "
        "is what makes encoder output independent of how input arrives.",
   note="Also decided for every slicing within their bounds: LZMA2 chunk layer, Block decoder body, Index verification. "
        "KNOWN FINDING D3 (known-findings.txt, DESIGN.md section 5): the input consumed when an LZMA2 chunk is rejected because "
        "its LZMA data overruns the Compressed Size field depends on slicing (the status does not); the check prints "
        "KNOWN-FINDING for it and exits 0. "
        "OUTSIDE: lzma_decode() resume points (a genuine slicing defect there, D1 in DESIGN.md, is known from a hand-made "
        "test and cannot be reached by CBMC), LZMA encoder byte determinism across "
        "thread counts, filter chain as text vs structure.")
NOT_APPLICABLE.pop("C06", None)
CLAIMED["C01"] = dict(
   text="Losslessness is decided for the layers under and around the LZMA symbol coder: LZ window geometry and one "
        "fill_window/move_window step from an arbitrary window state (history and unread data preserved byte for byte, "
        "positions keep their absolute meaning), declared dictionary size >= the one used (all 2^32 sizes), LZMA1 property "
        "bytes, BCJ/delta filter round trips.",
   note="The LZMA symbol coder itself (lzma_encoder*.c <-> lzma_decode(), range coder, optimum parsers, match finders' "
        "find/skip, LZMA2 chunking, presets, threaded encoder) is OUTSIDE: measured - whole-function symex of lzma_decode does "
        "not finish; range encoder/decoder equivalence undecided beyond one symbol. So this check does NOT establish "
        "end-to-end losslessness; it catches defects in the surrounding layers only.")
NOT_APPLICABLE.pop("C01", None)
CLAIMED["C12"] = dict(
   text="Flush and option-change logic around the LZMA symbol coder, on the real lzma2_encode, lzma2 options update, "
        "stream_encode (Block boundary) and stream_encoder_update, each from arbitrary states with the symbol encoder / "
        "Block encoder as contract stubs: a flush completes only when no byte handed to the match finder is unencoded; "
        "chunk headers carry the true sizes and reset level; no empty Block on flush without input; filter-chain update "
        "accepted only where allowed, old chain kept and no half-initialised encoder left ready on refusal; lc/lp/pb "
        "change only between chunks and announced in the next header; LZ window flush semantics.",
   note="Also: Block encoder - a completed SYNC_FLUSH writes payload only and leaves the Block open (C02 block_encode_body). "
        "OUTSIDE: that the LZMA bits emitted before a flush decode to the input (needs the symbol coder: measured no "
        "verdict), SYNC_FLUSH refusal by BCJ/LZMA1 at the raw encoder level beyond simple_code, the threaded encoder, "
        "xz --flush-timeout/--block-list plumbing. LZMA2 size constants are scaled down in the chunk obligations.")
NOT_APPLICABLE.pop("C12", None)
CLAIMED["C09"] = dict(
   text="Decided parts: (1) estimates are upper bounds - for every dictionary size / option set the bytes the real "
        "lz_decoder and lz_encoder init functions request from the allocator are <= the value of the corresponding "
        "memusage function plus the fixed allowance every public memusage function adds; (2) limits are gates - on the real "
        ".xz Stream decoder and .lzma decoder the payload decoder is initialised only if the needed amount fits the limit, "
        "otherwise MEMLIMIT_ERROR with nothing allocated, the amount reported, lower limits refused, the exact amount "
        "accepted and decoding resumed at the same point.",
   note="Also: the threaded decoder holds only the filter memory when it falls back to direct mode; xz -T1 with a user limit "
        "shrinks every chain's dictionary or fails. The Index decoder's gate (MEMLIMIT_ERROR right after the Record count, memconfig, *memlimit update of lzma_index_buffer_decode) is decided against a monotone memusage model. NOT covered: the rest of the threaded decoder's accounting, .lz and "
        "file-info gates, LZMA coder struct sizes beyond the LZ layer, mt encoder memusage / outq, xz's thread-count "
        "reduction branch, real peak heap of a process.")
CLAIMED["C04"] = dict(
   text="Memory safety, absence of undefined behaviour, source assert()s and bounded termination (unwinding assertions) are "
        "checked by CBMC in EVERY obligation; this property re-runs the decoder/parser obligations (header decoders over "
        "all inputs, stream_decode / .lz / .lzma / auto state machines from arbitrary states, VLI decoder, lzma_code "
        "protocol: documented codes only; LZMA2 chunk layer, Block decoder body, Index verification, MicroLZMA wrapper) and adds the LZ dictionary primitives as inductive steps from an arbitrary "
        "valid dictionary (dict_repeat / put / get / wrap) and the completeness of lzma_decoder_reset.",
   note="THE LARGEST HOLE: lzma_decode() (LZMA payload bits -> dictionary operations) is outside - measured: symex does not "
        "finish; it is replaced by the assumption that it calls the dictionary primitives with validated distances. Also "
        "outside: stream_decoder_mt under real concurrency, lzma_str_to_filters (tried: symbolic execution "
        "did not finish for 5-character strings), the SSE2 variant "
        "of dict_repeat, leak checking of full decode runs. dict_repeat content/frame parts are thorough-tier only.")
for _p in ("C04", "C09"):
    NOT_APPLICABLE.pop(_p, None)
CLAIMED["C08"] = dict(
   text="Thread-modular decision on the real code: (1) the encoder's worker thread function (worker_start/worker_encode) is "
        "executed alone against rely/guarantee pthread stubs - at every lock acquisition and condition wait the main thread "
        "may change the shared fields in any way its code allows, at every unlock the worker's changes, lock discipline and "
        "signal discipline (no lost wake-up) and the hand-over protocol (free list only after IDLE is published, EXIT never "
        "overridden, first error only) are asserted; this covers every interleaving and any number of threads as far as "
        "these per-critical-section conditions go. (2) The shared output queue as inductive steps from arbitrary states: "
        "in-order delivery from the oldest buffer only, recycled buffers clean, re-initialisation leaves no stale read "
        "offset, counters equal the structure.",
   note="This is NOT an interleaving exploration: deadlock freedom, output equality with the single-threaded encoder and "
        "determinism across thread counts follow from the checked discipline only by the argument in DESIGN.md. The main-thread "
        "side (stream_encode_mt, get_thread, wait_for_work, threads_stop/end, progress reporting, flush/barrier return rule) "
        "is not yet covered; rely relations are stated in the harness, unlocked reads are not detected. Bounds: one job, "
        "two unproductive waits, one stop request.")
CLAIMED["C07"] = dict(
   text="Thread-modular decision on the real worker_decoder(): executed alone against rely/guarantee pthread stubs (main "
        "thread may stop, end, feed input, enable partial output at every lock/wait); asserted at every unlock and wait: "
        "single-mutex discipline, state only RUN->IDLE and EXIT never overridden, positions published under the coder mutex "
        "with a signal and CURRENT whenever the worker sleeps with partial output enabled (stall detection for truncated "
        "input), finished buffer published once and never touched again, first error only, free list only after a "
        "successfully finished Block with exact memory accounting, no use of freed input, exit only on EXIT. Plus the "
        "shared output queue inductive steps.",
   note="Not an interleaving exploration. NOT covered: the main-thread side (stream_decode_mt sequencing, "
        "read_output_and_wait, threads_stop/end, memlimit_threading/memlimit_stop decisions, timeout handling), so equality "
        "with the single-threaded decoder and termination are argued from the checked discipline, not decided. Bounds: one "
        "Block, three decoder calls, two unproductive waits.")
for _p in ("C07", "C08"):
    NOT_APPLICABLE.pop(_p, None)
