#!/usr/bin/env python3
"""
vlib -- engine for solver-based checking of /repo with CBMC.

An *obligation* is one harness entry point (a C function in /verif/harness/<ID>/*.c that
#includes or links the real translation units of /repo), compiled by goto-cc from the
current working tree and decided by cbmc.  This module builds, runs (in parallel), parses
the per-property verdicts, handles witnesses (assertions that MUST fail = reachability),
extracts counterexample traces, builds and runs native replays, and writes evidence.
"""
import json, os, re, shutil, subprocess, sys, time, resource, hashlib, concurrent.futures as cf

VERIF = os.path.dirname(os.path.dirname(os.path.abspath(__file__)))
REPO = os.environ.get("VERIF_REPO", "/repo")
WORK = os.path.join(VERIF, ".work")
HOOK_GUARD = "TUKAANI_PROJECT_XZ_VERIF"

# ---------------------------------------------------------------------------------------
# Build configuration: the CMake build's feature macros (pinned from the RelWithDebInfo
# configuration of /repo/_build/build.ninja) minus the ones CBMC cannot model; see DESIGN 1.2.
LIBLZMA_DEFS = """
HAVE_CHECK_CRC32 HAVE_CHECK_CRC64 HAVE_CHECK_SHA256 HAVE_CLOCK_GETTIME HAVE_CLOCK_MONOTONIC
HAVE_DECODERS HAVE_DECODER_ARM HAVE_DECODER_ARM64 HAVE_DECODER_ARMTHUMB HAVE_DECODER_DELTA
HAVE_DECODER_IA64 HAVE_DECODER_LZMA1 HAVE_DECODER_LZMA2 HAVE_DECODER_POWERPC HAVE_DECODER_RISCV
HAVE_DECODER_SPARC HAVE_DECODER_X86 HAVE_ENCODERS HAVE_ENCODER_ARM HAVE_ENCODER_ARM64
HAVE_ENCODER_ARMTHUMB HAVE_ENCODER_DELTA HAVE_ENCODER_IA64 HAVE_ENCODER_LZMA1 HAVE_ENCODER_LZMA2
HAVE_ENCODER_POWERPC HAVE_ENCODER_RISCV HAVE_ENCODER_SPARC HAVE_ENCODER_X86
HAVE_INTTYPES_H HAVE_LZIP_DECODER HAVE_MF_BT2 HAVE_MF_BT3 HAVE_MF_BT4 HAVE_MF_HC3 HAVE_MF_HC4
HAVE_PTHREAD_CONDATTR_SETCLOCK HAVE_STDBOOL_H HAVE_STDINT_H HAVE_VISIBILITY=0 HAVE__BOOL
HAVE___BUILTIN_BSWAPXX MYTHREAD_POSIX TUKLIB_CPUCORES_SCHED_GETAFFINITY TUKLIB_FAST_UNALIGNED_ACCESS
TUKLIB_PHYSMEM_SYSCONF TUKLIB_SYMBOL_PREFIX=lzma_ _GNU_SOURCE
""".split()
# Deviations (documented): NDEBUG off (source assert()s become obligations);
# HAVE___BUILTIN_ASSUME_ALIGNED, HAVE_USABLE_CLMUL, HAVE_IMMINTRIN_H, HAVE__MM_MOVEMASK_EPI8,
# HAVE_CPUID_H, HAVE_FUNC_ATTRIBUTE_CONSTRUCTOR off (intrinsics / no CBMC model).
LIBLZMA_INC = ["src/liblzma/api", "src/liblzma/common", "src/liblzma/check", "src/liblzma/lz",
               "src/liblzma/rangecoder", "src/liblzma/lzma", "src/liblzma/delta",
               "src/liblzma/simple", "src/common"]
XZ_DEFS = """
ASSUME_RAM=128 HAVE_CHECK_CRC32 HAVE_CHECK_CRC64 HAVE_CHECK_SHA256 HAVE_CLOCK_GETTIME
HAVE_CLOCK_MONOTONIC HAVE_DECODERS HAVE_DECODER_ARM HAVE_DECODER_ARM64 HAVE_DECODER_ARMTHUMB
HAVE_DECODER_DELTA HAVE_DECODER_IA64 HAVE_DECODER_LZMA1 HAVE_DECODER_LZMA2 HAVE_DECODER_POWERPC
HAVE_DECODER_RISCV HAVE_DECODER_SPARC HAVE_DECODER_X86 HAVE_ENCODERS HAVE_ENCODER_ARM
HAVE_ENCODER_ARM64 HAVE_ENCODER_ARMTHUMB HAVE_ENCODER_DELTA HAVE_ENCODER_IA64 HAVE_ENCODER_LZMA1
HAVE_ENCODER_LZMA2 HAVE_ENCODER_POWERPC HAVE_ENCODER_RISCV HAVE_ENCODER_SPARC HAVE_ENCODER_X86
HAVE_FUTIMENS HAVE_INTTYPES_H HAVE_LZIP_DECODER HAVE_MBRTOWC HAVE_MF_BT2 HAVE_MF_BT3 HAVE_MF_BT4
HAVE_MF_HC3 HAVE_MF_HC4 HAVE_POSIX_FADVISE HAVE_PROGRAM_INVOCATION_NAME
HAVE_PTHREAD_CONDATTR_SETCLOCK HAVE_STDBOOL_H HAVE_STDINT_H HAVE_STRUCT_STAT_ST_ATIM_TV_NSEC
HAVE_VASPRINTF HAVE_WCWIDTH HAVE__BOOL HAVE___BUILTIN_BSWAPXX MYTHREAD_POSIX
TUKLIB_FAST_UNALIGNED_ACCESS _GNU_SOURCE
""".split() + ['PACKAGE="xz"', 'PACKAGE_NAME="XZ Utils"', 'PACKAGE_BUGREPORT="xz@tukaani.org"',
               'PACKAGE_URL="https://tukaani.org/xz/"', 'LOCALEDIR="/usr/local/share/locale"']
XZ_INC = ["src/common", "src/liblzma/api", "lib", "src/xz"]

# CBMC 6 enables bounds, pointer, pointer-primitive, div-by-zero, signed-overflow,
# undefined-shift checks and unwinding assertions by default; listed flags are explicit.
CBMC_BASE = ["--unwinding-assertions", "--signed-overflow-check", "--undefined-shift-check",
             "--drop-unused-functions"]


def sh(cmd, **kw):
    return subprocess.run(cmd, stdout=subprocess.PIPE, stderr=subprocess.STDOUT, text=True, **kw)


def repo_rev():
    try:
        h = sh(["git", "-C", REPO, "rev-parse", "HEAD"]).stdout.strip()
        d = sh(["git", "-C", REPO, "status", "--porcelain", "--untracked-files=no"]).stdout.strip()
        return h + ("+dirty" if d else "")
    except Exception:
        return "unknown"


class Obligation:
    """Declarative description of one obligation; see harness/<ID>/obl.py files."""

    def __init__(self, name, src, func="harness", lib="liblzma", units=(), defs=(), qdefs=(),
                 tdefs=(), unwind=None, qunwind=None, tunwind=None, unwindset=(), flags=(),
                 backend=None, timeout_q=240, timeout_t=1800, mem_gb=8, malloc_may_fail=False,
                 desc="", bounds_q="", bounds_t="", stubs=(), functions=(), replay=True,
                 outside="", extra_src=(), tiers=("quick", "thorough"), leak_check=False,
                 native_units=None, expect_witness=True, fp_restrict=(), replace_calls=(), hdefs=()):
        self.name = name; self.src = src; self.func = func; self.lib = lib
        self.units = list(units); self.defs = list(defs); self.qdefs = list(qdefs)
        self.tdefs = list(tdefs)
        self.unwind = unwind; self.qunwind = qunwind; self.tunwind = tunwind
        self.unwindset = list(unwindset); self.flags = list(flags); self.backend = backend
        self.timeout_q = timeout_q; self.timeout_t = timeout_t; self.mem_gb = mem_gb
        self.malloc_may_fail = malloc_may_fail; self.desc = desc
        self.bounds_q = bounds_q; self.bounds_t = bounds_t or bounds_q
        self.stubs = list(stubs); self.functions = list(functions); self.replay = replay
        self.outside = outside; self.extra_src = list(extra_src); self.tiers = tiers
        self.leak_check = leak_check
        self.native_units = native_units
        self.expect_witness = expect_witness
        self.fp_restrict = list(fp_restrict)
        self.replace_calls = list(replace_calls)
        self.hdefs = list(hdefs)   # -D flags for the harness TU only (not the real units)


def cflags(lib, extra_defs):
    if lib == "xz":
        defs, inc = XZ_DEFS, XZ_INC
    else:
        defs, inc = LIBLZMA_DEFS, LIBLZMA_INC
    out = ["-D" + d for d in defs] + ["-D" + HOOK_GUARD] + ["-D" + d for d in extra_defs]
    out += ["-I" + os.path.join(REPO, i) for i in inc]
    out += ["-I" + os.path.join(VERIF, "harness"), "-I" + os.path.join(VERIF, "stubs")]
    # every unit (harness and real /repo units alike) sees vcommon.h first, so that the
    # optional loop models of memcpy/memmove/memset (-DVLOOP_MEM) apply to the real code too
    out += ["-include", os.path.join(VERIF, "harness", "vcommon.h")]
    return out


def _limit(mem_gb):
    def f():
        resource.setrlimit(resource.RLIMIT_AS, (int(mem_gb * (1 << 30)),) * 2)
        os.setsid()
    return f


def run_limited(cmd, timeout, mem_gb, cwd=None):
    t0 = time.time()
    p = subprocess.Popen(cmd, stdout=subprocess.PIPE, stderr=subprocess.PIPE, text=True,
                         preexec_fn=_limit(mem_gb), cwd=cwd)
    try:
        out, err = p.communicate(timeout=timeout)
        status = "ok"
    except subprocess.TimeoutExpired:
        try:
            os.killpg(p.pid, 9)
        except Exception:
            p.kill()
        out, err = p.communicate()
        status = "timeout"
    ru = resource.getrusage(resource.RUSAGE_CHILDREN)
    return status, p.returncode, out, err, time.time() - t0


class Runner:
    def __init__(self, pid, tier, seed=0, jobs=None, keep=False, only=None):
        self.pid = pid; self.tier = tier; self.seed = seed
        self.jobs = jobs or int(os.environ.get("VERIF_JOBS", "0")) or (os.cpu_count() or 4)
        self.keep = keep; self.only = only
        self.work = os.path.join(WORK, "%s-%s-%d" % (pid, tier, os.getpid()))
        os.makedirs(self.work, exist_ok=True)
        self.replay_dir = os.path.join(VERIF, "replays", pid)
        self.known = load_known(pid)

    # -- build --------------------------------------------------------------------------
    def build(self, ob):
        d = os.path.join(self.work, ob.name)
        os.makedirs(d, exist_ok=True)
        tdefs = ob.defs + (ob.qdefs if self.tier == "quick" else ob.tdefs)
        flags = cflags(ob.lib, tdefs + ["VCBMC"])
        objs = []
        srcs = [os.path.join(VERIF, "harness", self.pid, ob.src)] + \
               [os.path.join(VERIF, s) for s in ob.extra_src] + \
               [os.path.join(REPO, u) for u in ob.units]
        log = []
        for i, s in enumerate(srcs):
            o = os.path.join(d, "u%d_%s.gb" % (i, os.path.basename(s).replace(".c", "")))
            r = sh(["goto-cc", "-c", "-o", o, s] + flags + (["-D" + x for x in ob.hdefs] if i == 0 else []))
            log.append(r.stdout)
            if r.returncode != 0:
                return None, "compile failed: %s\n%s" % (s, r.stdout[-3000:])
            objs.append(o)
        gb = os.path.join(d, "harness.gb")
        r = sh(["goto-cc", "-o", gb, "--function", ob.func] + objs)
        if r.returncode != 0:
            return None, "link failed:\n" + r.stdout[-3000:]
        if ob.replace_calls or ob.fp_restrict:
            # one goto-instrument pass for both (a second pass would find the function pointer
            # calls already lowered)
            gb3 = os.path.join(d, "harness_inst.gb")
            cmd = ["goto-instrument"]
            for x in ob.fp_restrict:
                cmd += ["--restrict-function-pointer", x]
            for (a_, b_) in ob.replace_calls:
                cmd += ["--replace-calls", "%s:%s" % (a_, b_)]
            r = sh(cmd + [gb, gb3])
            if r.returncode != 0:
                return None, "goto-instrument (fp restriction / replace-calls) failed:\n" + r.stdout[-3000:]
            gb = gb3
        # drop unreachable functions now, so that loop listings (unwindset) and CBMC see the
        # same set of functions
        gbd = os.path.join(d, "harness_d.gb")
        r = sh(["goto-instrument", "--drop-unused-functions", gb, gbd])
        if r.returncode == 0 and os.path.exists(gbd):
            gb = gbd
        return gb, "".join(log)

    def unwindset(self, ob, gb):
        """Translate entries 'function:regex-on-source-line:N' into CBMC loop ids using
        goto-instrument --show-loops, so that loop numbers are recomputed from the current
        source on every run."""
        if not ob.unwindset:
            return []
        r = sh(["goto-instrument", "--show-loops", gb])
        loops = []  # (loopid, file, line, function)
        cur = None
        for line in r.stdout.splitlines():
            m = re.match(r"^Loop (\S+):", line)
            if m:
                cur = m.group(1); continue
            m = re.match(r"^\s+file (\S+) line (\d+) function (\S+)", line)
            if m and cur:
                loops.append((cur, m.group(1), int(m.group(2)), m.group(3))); cur = None
        res = []
        srccache = {}
        for ent in ob.unwindset:
            fn, pat, n = ent
            if self.tier == "thorough" and isinstance(n, (tuple, list)):
                n = n[1]
            elif isinstance(n, (tuple, list)):
                n = n[0]
            hit = False
            if pat == "RECURSION":
                res.append("%s:%d" % (fn, n)); continue
            kth = -1
            if pat and pat.startswith("^"):
                # "^k" selects the k-th loop of the function in SOURCE-LINE order
                cand = sorted([(ln, lid) for (lid, f, ln, func) in loops if func == fn])
                kk = int(pat[1:])
                if kk < len(cand):
                    res.append("%s:%d" % (cand[kk][1], n)); hit = True
                if not hit and cand:
                    res.append(None)
                continue
            for (lid, f, ln, func) in loops:
                if func != fn:
                    continue
                kth += 1
                if pat and pat.startswith("#"):
                    # "#k" selects the k-th loop of the function (in goto-program order)
                    if kth != int(pat[1:]):
                        continue
                elif pat:
                    path = f if os.path.isabs(f) else os.path.join(REPO, f)
                    if path not in srccache:
                        try:
                            srccache[path] = open(path, errors="replace").read().splitlines()
                        except Exception:
                            srccache[path] = []
                    text = srccache[path][ln - 1] if ln - 1 < len(srccache[path]) else ""
                    if not re.search(pat, text):
                        continue
                res.append("%s:%d" % (lid, n)); hit = True
            if not hit:
                if any(func == fn for (_l, _f, _n, func) in loops):
                    res.append(None)   # function has loops but the line pattern no longer matches
                # else: function unreachable in this obligation (dropped): default --unwind applies
        return res

    # -- run ----------------------------------------------------------------------------
    def cbmc_cmd(self, ob, gb, extra=()):
        cmd = ["cbmc", gb] + CBMC_BASE
        uw = ob.unwind
        if self.tier == "quick" and ob.qunwind is not None:
            uw = ob.qunwind
        if self.tier == "thorough" and ob.tunwind is not None:
            uw = ob.tunwind
        if uw is not None:
            cmd += ["--unwind", str(uw)]
        us = self.unwindset(ob, gb)
        if any(u is None for u in us):
            return None
        if us:
            cmd += ["--unwindset", ",".join(us)]
        if ob.malloc_may_fail:
            cmd += ["--malloc-may-fail", "--malloc-fail-null"]
        else:
            cmd += ["--no-malloc-may-fail"]
        if ob.leak_check:
            cmd += ["--memory-leak-check"]
        if ob.backend == "cadical":
            cmd += ["--sat-solver", "cadical"]
        elif ob.backend == "kissat":
            cmd += ["--external-sat-solver", "kissat"]
        elif ob.backend == "z3":
            cmd += ["--z3"]
        elif ob.backend == "cvc5":
            cmd += ["--cvc5"]
        cmd += ob.flags
        cmd += list(extra)
        return cmd

    def run_one(self, ob):
        t0 = time.time()
        res = dict(name=ob.name, desc=ob.desc, status="error", failures=[], witnesses_ok=0,
                   witnesses_missing=[], props=0, seconds=0.0, detail="", solver_s=0.0,
                   backend=ob.backend or "minisat", stubs=ob.stubs, functions=ob.functions,
                   bounds=(ob.bounds_q if self.tier == "quick" else ob.bounds_t),
                   outside=ob.outside, replay=[], sat_vars=0, sat_clauses=0, steps=0)
        gb, log = self.build(ob)
        if gb is None:
            res["detail"] = log; res["seconds"] = time.time() - t0
            return res
        cmd = self.cbmc_cmd(ob, gb, ["--json-ui"])
        if cmd is None:
            res["detail"] = "unwindset entry did not match any loop (source changed?)"
            res["status"] = "error"; res["seconds"] = time.time() - t0
            return res
        res["cmd"] = " ".join(cmd)
        timeout = ob.timeout_q if self.tier == "quick" else ob.timeout_t
        st, rc, out, err, secs = run_limited(cmd, timeout, ob.mem_gb)
        res["seconds"] = secs
        if st == "timeout":
            res["status"] = "timeout"; return res
        try:
            js = json.loads(out)
        except Exception:
            res["status"] = "error"
            res["detail"] = "unparsable cbmc output rc=%s\n%s\n%s" % (rc, out[-2000:], err[-2000:])
            if "std::bad_alloc" in err or "Out of memory" in err or rc in (-9, 137, -6, 134):
                res["status"] = "oom"
            return res
        props = None
        for item in js:
            if isinstance(item, dict):
                if "result" in item:
                    props = item["result"]
                mt = item.get("messageText", "")
                m = re.search(r"(\d+) variables, (\d+) clauses", mt)
                if m:
                    res["sat_vars"] = max(res["sat_vars"], int(m.group(1)))
                    res["sat_clauses"] = max(res["sat_clauses"], int(m.group(2)))
                m = re.search(r"size of program expression: (\d+) steps", mt)
                if m:
                    res["steps"] = int(m.group(1))
                m = re.search(r"Runtime Solver: ([0-9.e+-]+)s", mt)
                if m:
                    res["solver_s"] += float(m.group(1))
                m = re.search(r"Runtime decision procedure: ([0-9.e+-]+)s", mt)
                if m:
                    res["solver_s"] = max(res["solver_s"], float(m.group(1)))
        if props is None:
            res["status"] = "error"
            msgs = [i.get("messageText", "") for i in js if isinstance(i, dict)
                    and i.get("messageType") in ("ERROR", "WARNING")]
            res["detail"] = "no result section rc=%s: %s" % (rc, "\n".join(msgs)[-2000:])
            return res
        res["props"] = len(props)
        fails = []
        undecided = 0
        for p in props:
            d = p.get("description", "")
            stt = p.get("status")
            if d.startswith("WITNESS:"):
                if stt == "FAILURE":
                    res["witnesses_ok"] += 1
                else:
                    res["witnesses_missing"].append(d)
                continue
            if stt == "FAILURE":
                loc = p.get("sourceLocation", {})
                fails.append(dict(id=p.get("property"), desc=d, file=loc.get("file", ""),
                                  line=loc.get("line", ""), function=loc.get("function", "")))
            elif stt not in ("SUCCESS",):
                undecided += 1
                if undecided <= 5:
                    res["detail"] += "property %s status %s\n" % (p.get("property"), stt)
        res["failures"] = fails
        if fails:
            res["status"] = "fail"
        elif undecided:
            # solver error / out of memory for some properties: never a pass
            res["status"] = "error"
            res["detail"] = ("%d properties undecided (solver error or memory limit)\n" % undecided) + res["detail"]
        elif res["witnesses_missing"] or (ob.expect_witness and res["witnesses_ok"] == 0):
            res["status"] = "vacuous"
        else:
            res["status"] = "pass"
        # counterexample extraction + replay
        if fails:
            self.handle_failures(ob, gb, res)
        return res

    def handle_failures(self, ob, gb, res):
        os.makedirs(self.replay_dir, exist_ok=True)
        timeout = ob.timeout_q if self.tier == "quick" else ob.timeout_t
        seen_classes = set()
        for f in res["failures"][:3]:
            pidn = f["id"]
            safe = re.sub(r"[^A-Za-z0-9_.-]", "_", "%s.%s" % (ob.name, pidn))
            cmd = self.cbmc_cmd(ob, gb, ["--trace", "--property", pidn])
            st, rc, out, err, secs = run_limited(cmd, timeout, ob.mem_gb)
            tpath = os.path.join(self.replay_dir, safe + ".trace.txt")
            with open(tpath, "w") as fh:
                fh.write("# obligation %s, failed property %s: %s\n# %s line %s function %s\n# cmd: %s\n"
                         % (ob.name, pidn, f["desc"], f["file"], f["line"], f["function"],
                            " ".join(cmd)))
                fh.write(out[-4000000:])
            f["trace"] = tpath
            f["replay_status"] = "trace-only"
            f["replay_path"] = tpath
            if ob.replay and st == "ok":
                # several traces may be printed (unwinding assertions are checked too):
                # take the section for the property we asked for
                secs_ = re.split(r"^Trace for (\S+):\s*$", out, flags=re.M)
                sect = out
                for i in range(1, len(secs_) - 1, 2):
                    if secs_[i] == pidn:
                        sect = secs_[i + 1]; break
                vals = [int(m.group(1)) for m in re.finditer(r"^\s*nd_last=(\d+)", sect, re.M)]
                rp, status, rout = self.native_replay(ob, safe, vals)
                f["replay_status"] = status
                f["replay_output"] = rout[-1500:]
                if rp:
                    f["replay_path"] = rp

    def native_replay(self, ob, safe, vals):
        """Build the same harness natively (ASan+UBSan, assertions on) with the recorded
        nondeterministic choices and run it."""
        d = os.path.join(self.work, ob.name, "native")
        os.makedirs(d, exist_ok=True)
        tdefs = ob.defs + (ob.qdefs if self.tier == "quick" else ob.tdefs)
        rc_path = os.path.join(self.replay_dir, safe + ".replay.c")
        with open(rc_path, "w") as fh:
            fh.write("/* replay input for obligation %s (values of successive nd_*() calls) */\n"
                     "#include <stdint.h>\n" % ob.name)
            fh.write("const uint64_t vreplay_values[] = {%s 0};\n" %
                     "".join("%dull, " % v for v in vals))
            fh.write("const unsigned vreplay_count = %d;\n" % len(vals))
            fh.write("void %s(void);\nint main(void) { %s(); return 0; }\n" % (ob.func, ob.func))
        flags = [x for x in cflags(ob.lib, tdefs + ["VREPLAY"])]
        units = ob.native_units if ob.native_units is not None else ob.units
        srcs = [os.path.join(VERIF, "harness", self.pid, ob.src), rc_path] + \
               [os.path.join(VERIF, s) for s in ob.extra_src] + \
               [os.path.join(REPO, u) for u in units]
        exe = os.path.join(self.replay_dir, safe + ".replay.exe")
        # harness-only defines: compile the harness TU separately
        hobj = os.path.join(d, "harness_native.o")
        if ob.hdefs:
            rr = sh(["gcc", "-std=gnu11", "-O0", "-g", "-w", "-fsanitize=address,undefined", "-fno-sanitize-recover=undefined",
                     "-c", "-o", hobj, srcs[0]] + flags + ["-D" + x for x in ob.hdefs])
            if rr.returncode == 0:
                srcs = [hobj] + srcs[1:]
        cmd = ["gcc", "-std=gnu11", "-O0", "-g", "-w", "-fsanitize=address,undefined",
               "-fno-sanitize-recover=undefined", "-o", exe] + srcs + flags + ["-lpthread", "-Wl,--unresolved-symbols=ignore-all", "-no-pie", "-fno-pie"]
        r = sh(cmd)
        script = os.path.join(self.replay_dir, safe + ".replay.sh")
        with open(script, "w") as fh:
            fh.write("#!/bin/sh\n# rebuild and run the native replay; exit 42 / sanitizer abort = reproduced\n")
            fh.write(" ".join("'%s'" % c for c in cmd) + " && " + exe + "\n")
        os.chmod(script, 0o755)
        if r.returncode != 0:
            return script, "replay-build-failed", r.stdout
        try:
            p = subprocess.run([exe], stdout=subprocess.PIPE, stderr=subprocess.STDOUT, text=True,
                               timeout=60, env=dict(os.environ, ASAN_OPTIONS="detect_leaks=0"))
        except subprocess.TimeoutExpired:
            return script, "confirmed(hang)", "native replay did not terminate in 60 s"
        if p.returncode == 42:
            return script, "confirmed", p.stdout
        if p.returncode == 3:
            return script, "diverged", p.stdout
        if p.returncode != 0:
            return script, "confirmed(sanitizer/abort rc=%d)" % p.returncode, p.stdout
        return script, "not-reproduced", p.stdout

    # -- driver -------------------------------------------------------------------------
    def run_all(self, obligations):
        obs = [o for o in obligations if self.tier in o.tiers]
        if self.only:
            obs = [o for o in obs if re.search(self.only, o.name)]
        t0 = time.time()
        results = []
        with cf.ThreadPoolExecutor(max_workers=self.jobs) as ex:
            futs = {ex.submit(self.run_one, o): o for o in obs}
            for fu in cf.as_completed(futs):
                try:
                    r = fu.result()
                except Exception as e:
                    r = dict(name=futs[fu].name, status="error", detail=repr(e), failures=[],
                             seconds=0, witnesses_ok=0, witnesses_missing=[], props=0,
                             solver_s=0, desc=futs[fu].desc)
                results.append(r)
                sys.stderr.write("[%s] %-40s %-8s %6.1fs props=%d fails=%d wit=%d %s\n" % (
                    self.pid, r["name"], r["status"], r["seconds"], r.get("props", 0),
                    len(r["failures"]), r.get("witnesses_ok", 0),
                    (r.get("detail") or "")[:300].replace("\n", " | ")))
                sys.stderr.flush()
        results.sort(key=lambda r: r["name"])
        wall = time.time() - t0
        if not self.keep:
            shutil.rmtree(self.work, ignore_errors=True)
            try:
                os.rmdir(WORK)
            except OSError:
                pass
        return results, wall


def load_known(pid):
    path = os.path.join(VERIF, "known-findings.txt")
    out = []
    if os.path.exists(path):
        for line in open(path):
            line = line.strip()
            if line.startswith("known:"):
                m = re.match(r"known:\s+property=(\S+)\s+obligation=(\S+)\s+assertion=(\S+)\s+(.*)", line)
                if m and m.group(1) == pid:
                    out.append(dict(obligation=m.group(2), assertion=m.group(3), what=m.group(4)))
    return out


def report(pid, tier, seed, obligations, results, wall, level_note=""):
    """Print verdict lines, write evidence, return exit code."""
    viol = 0
    known_hits = []
    inconclusive = []
    lines = []
    known = load_known(pid)
    for r in results:
        if r["status"] == "fail":
            for f in r["failures"]:
                k = [k for k in known if k["obligation"] == r["name"] and
                     (k["assertion"] == f["id"] or k["assertion"] == "*" or k["assertion"] in f["desc"])]
                if k:
                    known_hits.append("KNOWN-FINDING: property=%s %s" % (pid, k[0]["what"]))
                    f["known"] = True
                    continue
                viol += 1
                lines.append("VIOLATION property=%s replay=%s obligation=%s assertion=%s (%s) at %s:%s replay_status=%s" % (
                    pid, f.get("replay_path", "n/a"), r["name"], f["id"], f["desc"], f["file"],
                    f["line"], f.get("replay_status", "n/a")))
        elif r["status"] == "vacuous":
            viol += 1
            lines.append("VIOLATION property=%s replay=n/a obligation=%s reachability witness not reachable: %s (the code no longer admits the behaviour the obligation quantifies over)" % (
                pid, r["name"], "; ".join(r["witnesses_missing"]) or "no witness found"))
        elif r["status"] in ("timeout", "oom", "error"):
            inconclusive.append(r)
    for l in sorted(set(known_hits)):
        print(l)
    for l in lines:
        print(l)
    for r in inconclusive:
        print("INCONCLUSIVE property=%s obligation=%s status=%s %s" % (
            pid, r["name"], r["status"], (r.get("detail") or "")[:400].replace("\n", " | ")))
    n = len(results)
    passed = [r for r in results if r["status"] == "pass"]
    nontriv = [r for r in passed if r.get("witnesses_ok", 0) > 0]
    ev = dict(
        property_id=pid, tier=tier, seed=seed, level="model_checking",
        coverage=dict(
            evaluations=n,
            distinct_nontrivial=len(nontriv),
            rule=("one evaluation = one CBMC query family (one harness obligation over the real "
                  "/repo translation units, all checks incl. unwinding assertions); an obligation "
                  "counts as non-trivial when it was decided SUCCESS and every reachability "
                  "witness in it (an assertion that must FAIL) was indeed violated, i.e. the "
                  "harness is not vacuous"),
            obligations=n, discharged=len(passed),
            # model-checking style counters (bounded symbolic exploration, so these are sizes of
            # the explored symbolic transition systems, measured by CBMC on this run):
            # states = SSA program steps of all obligations, transitions = verification
            # conditions (properties) decided, traces_validated_against_impl = counterexample
            # traces replayed against a native build of /repo
            states=max(1, sum(r.get("steps", 0) for r in results)),
            transitions=max(1, sum(r.get("props", 0) for r in results)),
            traces_validated_against_impl=sum(1 for r in results for f in r["failures"]
                                              if str(f.get("replay_status", "")).startswith("confirmed")),
            inconclusive=[dict(name=r["name"], status=r["status"]) for r in inconclusive],
            cbmc_properties_checked=sum(r.get("props", 0) for r in results),
            solver_seconds=round(sum(r.get("solver_s", 0) for r in results), 2),
            cpu_wall_seconds_sum=round(sum(r.get("seconds", 0) for r in results), 2),
            repo_revision=repo_rev(),
            engine="cbmc 6.11.0 (goto-cc from current /repo working tree)",
            samples=[dict(obligation=r["name"], what=r.get("desc", ""), bounds=r.get("bounds", ""),
                          functions_encoded=r.get("functions", []), stubs=r.get("stubs", []),
                          outside_claim=r.get("outside", ""), backend=r.get("backend", ""),
                          verdict=r["status"], cbmc_properties=r.get("props", 0),
                          witnesses_reached=r.get("witnesses_ok", 0),
                          program_steps=r.get("steps", 0), sat_variables=r.get("sat_vars", 0),
                          sat_clauses=r.get("sat_clauses", 0),
                          seconds=round(r.get("seconds", 0), 2),
                          failures=[dict(id=f["id"], desc=f["desc"],
                                         replay_status=f.get("replay_status"),
                                         known=f.get("known", False)) for f in r["failures"]])
                     for r in results],
            exhaustive=False,
        ),
        assumptions=[
            "bounded: every verdict holds only within the per-obligation bounds listed in coverage.samples[*].bounds; --unwinding-assertions is on so a too-small loop bound is a reported failure",
            "build deviates from the shipped one as stated in DESIGN.md 1.2 (NDEBUG off, no intrinsics/inline asm, no __builtin_assume_aligned)",
            "stubs listed per obligation behave by their stated contract; CBMC's memory model (malloc never fails unless the obligation says so)",
        ] + ([level_note] if level_note else []),
        wall_s=round(wall, 2),
        violations=viol,
    )
    os.makedirs(os.path.join(VERIF, "evidence"), exist_ok=True)
    with open(os.path.join(VERIF, "evidence", pid + ".json"), "w") as fh:
        json.dump(ev, fh, indent=1)
    print("SUMMARY property=%s tier=%s obligations=%d discharged=%d nonvacuous=%d inconclusive=%d violations=%d known=%d wall=%.1fs" % (
        pid, tier, n, len(passed), len(nontriv), len(inconclusive), viol, len(set(known_hits)), wall))
    return 1 if viol else 0
